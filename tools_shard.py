#!/venv/bin/python
"""debug helper: run one shard of a check in a worker process and print its raw result (crash text, violations)
usage: tools_shard.py C09 19 [--seed 2] [--tier quick]"""
import argparse, json, os, subprocess, sys, tempfile, shutil
HERE = os.path.dirname(os.path.abspath(__file__))
sys.path.insert(0, HERE)
from lqv import boot
ap = argparse.ArgumentParser()
ap.add_argument("prop"); ap.add_argument("index", type=int)
ap.add_argument("--seed", type=int, default=0); ap.add_argument("--tier", default="quick")
a = ap.parse_args()
boot.ensure_deps(); boot.import_liquer()
import importlib
mod = importlib.import_module("lqv.checks." + a.prop.lower())
specs = mod.shards(a.tier, a.seed)
d = tempfile.mkdtemp(prefix="lqv_dbg_", dir=boot.scratch_base())
try:
    spec = dict(specs[a.index], tier=a.tier, seed=a.seed, scratch=d, shard_index=a.index)
    print("spec:", {k: v for k, v in spec.items() if k != "scratch"})
    json.dump(spec, open(os.path.join(d, "spec.json"), "w"))
    env = dict(os.environ, PYTHONPATH=HERE, PYTHONHASHSEED="0"); env[boot.GUARD] = "1"
    subprocess.run([boot.PYTHON, "-m", "lqv.worker", a.prop, os.path.join(d, "spec.json"), os.path.join(d, "out.json")], cwd=HERE, env=env)
    r = json.load(open(os.path.join(d, "out.json")))
    if r.get("crash"):
        print(r["crash"])
    for v in r.get("violations", [])[:10]:
        print("VIOL", v.get("sig"), str(v.get("what"))[:600])
    print({k: r.get(k) for k in ("evaluations", "inconclusive")})
finally:
    shutil.rmtree(d, ignore_errors=True)
