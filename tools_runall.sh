#!/bin/sh
# runs every registered check of a tier in sequence and prints the verdict lines
TIER="${1:-quick}"
cd "$(dirname "$0")"
for id in C01 C02 C03 C04 C05 C06 C07 C08 C09 C10 C11 C12 C13 C14 C15 C16 C17 C18 C19 C20; do
  ./check $id --tier $TIER 2>&1 | grep -E "^(VIOLATION|INCONCLUSIVE|C[0-9]+ tier=)" | cut -c1-300
done
