"""Worker process: runs one shard of one check with the code under test silenced."""
import faulthandler
import json
import os
import sys
import traceback


def main():
    prop, spec_path, out_path = sys.argv[1:4]
    spec = json.load(open(spec_path))
    from lqv import boot

    boot.ensure_deps()
    log = open(os.path.join(os.path.dirname(out_path), "worker.log"), "w")
    faulthandler.enable(log)
    boot.silence()
    result = {}
    try:
        boot.import_liquer()
        from lqv.mon import fence

        scratch = spec.get("scratch") or os.path.dirname(out_path)
        fence.install([scratch])
        if not fence.self_test(scratch):
            raise RuntimeError("scratch fence does not block: refusing to run")
        os.chdir(scratch)   # relative store roots (FileStore("sub"), FileStore(".")) live in the scratch directory
        import importlib

        mod = importlib.import_module("lqv.checks." + prop.lower())
        if "replay" in spec and hasattr(mod, "replay"):
            result = mod.replay(spec)
        else:
            result = mod.run_shard(spec)
    except BaseException:
        result = {"crash": traceback.format_exc()}
        log.write(result["crash"])
        log.flush()
    tmp = out_path + ".tmp"
    with open(tmp, "w") as f:
        json.dump(result, f, default=repr)
    os.replace(tmp, out_path)
    os._exit(0)


if __name__ == "__main__":
    main()
