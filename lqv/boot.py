"""Bootstrap shared by the driver and the workers.

* locates the harness root (checkout-relative, never /tmp),
* makes icontract importable (offline wheelhouse -> <root>/.deps),
* imports liquer from /repo's *working tree* and proves it,
* silences the (very chatty) code under test at file-descriptor level.
"""
import os
import subprocess
import sys

ROOT = os.path.dirname(os.path.dirname(os.path.abspath(__file__)))
REPO = os.environ.get("LQV_REPO", "/repo")
DEPS = os.path.join(ROOT, ".deps")
WHEELS = "/opt/veriftools/wheels"
PYTHON = "/venv/bin/python"
GUARD = "LIQUER_VERIF"


def ensure_deps():
    """Install icontract (+deal) beside the repo's interpreter, offline."""
    marker = os.path.join(DEPS, "icontract", "__init__.py")
    marker2 = os.path.join(DEPS, "jsonschema", "__init__.py")
    if not (os.path.exists(marker) and os.path.exists(marker2)):
        os.makedirs(DEPS, exist_ok=True)
        cmd = [
            PYTHON, "-m", "pip", "install", "--quiet", "--no-index",
            "--find-links", WHEELS, "--target", DEPS, "--upgrade", "icontract", "deal", "jsonschema",
        ]
        env = dict(os.environ, PIP_NO_INDEX="1", PIP_DISABLE_PIP_VERSION_CHECK="1")
        r = subprocess.run(cmd, env=env, stdout=subprocess.PIPE, stderr=subprocess.STDOUT)
        if r.returncode != 0 or not os.path.exists(marker):
            sys.stderr.write(r.stdout.decode("utf-8", "replace"))
            raise SystemExit("lqv.boot: cannot install icontract from the offline wheelhouse")
    if DEPS not in sys.path:
        sys.path.append(DEPS)  # last: /venv's own packages win


def import_liquer():
    """liquer must come from /repo's working tree."""
    if REPO in sys.path:
        sys.path.remove(REPO)
    sys.path.insert(0, REPO)
    os.environ.setdefault(GUARD, "1")
    import liquer  # noqa

    f = os.path.realpath(liquer.__file__)
    if not f.startswith(os.path.realpath(REPO) + os.sep):
        raise SystemExit(f"lqv.boot: liquer imported from {f}, not from {REPO}")
    return liquer


def tree_identity():
    def git(*a):
        try:
            return subprocess.run(["git", "-C", REPO] + list(a), stdout=subprocess.PIPE,
                                  stderr=subprocess.DEVNULL, timeout=20).stdout.decode().strip()
        except Exception:
            return ""
    head = git("rev-parse", "HEAD")
    dirty = bool(git("status", "--porcelain", "--untracked-files=no"))
    return {"head": head, "dirty": dirty}


_saved = {}


def silence():
    """Point fd 1 and 2 at /dev/null (the code under test prints constantly).
    The original fds are kept so that the worker can still talk if it must."""
    import logging

    if _saved:
        return
    sys.stdout.flush()
    sys.stderr.flush()
    _saved[1] = os.dup(1)
    _saved[2] = os.dup(2)
    devnull = os.open(os.devnull, os.O_WRONLY)
    os.dup2(devnull, 1)
    os.dup2(devnull, 2)
    os.close(devnull)
    logging.disable(logging.CRITICAL)


def real_stderr():
    fd = _saved.get(2, 2)
    return os.fdopen(os.dup(fd), "w")


def scratch_base():
    for d in ("/dev/shm", os.environ.get("TMPDIR", ""), "/tmp"):
        if d and os.path.isdir(d) and os.access(d, os.W_OK):
            return d
    return "/tmp"
