"""Runs the repository's pinned test-suite in a subprocess with the recording contracts of one property enabled."""
import json
import os
import subprocess

from lqv import boot


def run(prop, scratch, timeout=1500):
    out = os.path.join(scratch, "contracts_%s.json" % prop)
    env = dict(os.environ)
    env["PYTHONPATH"] = os.pathsep.join([boot.REPO, boot.ROOT, boot.DEPS])
    env["LQV_CONTRACTS"] = prop
    env["LQV_CONTRACTS_OUT"] = out
    cmd = [boot.PYTHON, "-m", "pytest", "-q", "-p", "no:cacheprovider", "-p", "lqv.pytest_contracts", "--timeout=900",
           "--continue-on-collection-errors", "--basetemp", os.path.join(scratch, "pytest_tmp"), "tests"]
    try:
        subprocess.run(cmd, cwd=boot.REPO, env=env, stdout=subprocess.DEVNULL, stderr=subprocess.DEVNULL, timeout=timeout)
    except subprocess.TimeoutExpired:
        return None
    if not os.path.exists(out):
        return None
    return json.load(open(out))
