"""What is claimed, per property (source of MANIFEST.json; see tools_manifest.py)."""

HOOK_COMMITS = []
NOTES = ("All checks are runtime monitoring of the real liquer code (no prover / model checker decides anything). "
         "Exit 2 + 'INCONCLUSIVE' means a deciding monitor was not reached; it never happens on the unchanged tree. "
         "known_findings.jsonl lists genuine defects by mechanism signature; 'fixed' entries suppress nothing.")
NOT_CLAIMED = {}

_EXPL = "exploration"

CHECKS = {
    "C03": dict(
        category=_EXPL, design_ref="DESIGN.md section 4, C03",
        technique="runtime contracts (icontract post-conditions on encode_token / StringActionParameter.encode) + encode-parse embedding oracle over exhaustive and random token workloads",
        text="Held on every Unicode scalar value as a token and on every short string over the structurally significant alphabet (both enumerated completely), plus seeded random long strings, at every argument position incl. nested links, header parameters and the list form. Exploration: a long input outside these shapes can be missed.",
        note="Trusts urllib.parse.quote/unquote and pyparsing as shipped; lone surrogates are outside the quantifier."),
    "C02": dict(
        category=_EXPL, design_ref="DESIGN.md section 4, C02",
        technique="runtime contract (icontract post-condition on liquer.parser.parse, rebound in every importing module): canonical text re-parses to the same structure and re-encodes identically; bounded-exhaustive token sequences + grammar-directed random sentences + mutations",
        text="Every accepted text met by the workload (all concatenations of up to 3/4 symbols of a 28-symbol token alphabet, tens of thousands of random grammar sentences with nested links, headers of level 1-3, -R headers, resource paths, file names) is checked by the contract. Exploration: unusual long sentences can be missed.",
        note="Structure comparison ignores positions only; trusts pyparsing. One genuine grammar ambiguity is a listed known finding."),
    "C19": dict(
        category=_EXPL, design_ref="DESIGN.md section 4, C19",
        technique="runtime contracts (icontract post-conditions on ResourceQuerySegment.to_absolute and Query.to_absolute) against a component-list normalisation model; exhaustive small paths x directories, random multi-segment queries; idempotence and untouched-segment conditions",
        text="All 31 directories x all paths of up to 4 (quick) / 6 (thorough) components over {a,b,.,..,x.y} enumerated completely; random queries with several named resource segments, header parameters and transformations. Exploration beyond those bounds.",
        note="Model is 15 lines (anchor on leading '.'/'..', pop on '..', reject above root); directory argument assumed normalised."),
    "C07": dict(
        category=_EXPL, design_ref="DESIGN.md section 4, C07",
        technique="reference-model monitor: executable StoreModel compared with the real store after every operation over the whole key universe (all reads, multiplicities), raw-snapshot read-purity monitor, recording icontract invariant on MemoryStore; delta-debugged witnesses",
        text="Thousands of seeded well-formed histories over a 12-key confusable universe on 14 configurations (memory/directory store plain, behind ProxyStore, IndexerStore, overlay with empty fall-back, mount-point default, mounted under a prefix, default global composition). Exploration: no claim beyond the histories run.",
        note="Only well-formed histories (model preconditions); failing reads may raise anything or return None; timestamps/mimetype defaults not compared."),
    "C14": dict(
        category=_EXPL, design_ref="DESIGN.md section 4, C14",
        technique="reference-model monitor on the composite (union view with pinned mount directories) plus per-part models compared with the raw part stores after every operation (routing and key translation observed through uniquely tagged values); to_root_key round trips",
        text="Seeded random mount tables (0-3 mounts, sibling/nested, one/two-component prefixes, with/without default, memory and directory parts, hidden default content under mount prefixes) and histories on keys inside, outside, at and next to mount points. Exploration.",
        note="Outer prefixes mounted before inner ones; unroutable absent keys may answer false or raise."),
    "C15": dict(
        category=_EXPL, design_ref="DESIGN.md section 4, C15",
        technique="reference-model monitor (view = plain StoreModel initialised from the fall-back content) after every operation + fall-back immutability snapshot compared after every operation",
        text="Seeded random fall-back contents and well-formed histories through the overlay (incl. re-creation after removal, both metadata-update styles, recursive removal) for memory and directory stores in either role. Exploration.",
        note="Removed key may read as raises or None; well-formed histories only."),
    "C01": dict(
        category=_EXPL, design_ref="DESIGN.md section 4, C01 and 3.2",
        technique="reference-model monitor: real Context.evaluate (no cache) vs an independent reference interpreter of the parsed query over the undecorated vocabulary functions; type-strict comparison of value, state variables, last command, file name, extension; call log recorded",
        text="Thousands of seeded grammar-directed queries (all parameter kinds and argument shapes, links to depth 3, namespaces, state variables, sub-evaluations, file names, injected input, extra parameters) each compared field by field. Exploration with a feature-coverage table; empty feature class => inconclusive.",
        note="Reference interpreter (~250 lines) is trusted; vocabulary follows the documented command conventions; queries implying >300 executions discarded."),
    "C06": dict(
        category=_EXPL, design_ref="DESIGN.md section 4, C06",
        technique="call-log monitor (canary commands right of the injected failure must not run) + failure-report monitor + position oracle accepting every correct (query text, offset) naming of the failing action or link argument; failure location from the reference interpreter",
        text="Thousands of seeded failing queries: 11 failure kinds x position 1-5 at top level and inside links to depth 3, followed by canaries (also inside later link arguments), with NoCache and MemoryCache cold/warm. Exploration.",
        note="Failure location trusted from the reference interpreter; two position/naming mechanisms are listed known findings."),
    "C13": dict(
        category=_EXPL, design_ref="DESIGN.md section 4, C13",
        technique="reference-model monitor (CacheModel relation absent/data/meta-only/maybe) compared after every operation over a confusable key universe for every back-end and combinator; raw-file scanner for unique plaintext markers in XOR/Fernet cache directories; delta-debugged witnesses",
        text="Seeded histories of store / store_metadata / remove / clean with all reads after each step, 19 confusable keys, values of every built-in type, 17 configurations. Exploration.",
        note="Values restricted to what their state type represents losslessly; refused stores leave the key unspecified; metadata write after data may keep or drop the data."),
    "C04": dict(
        category=_EXPL, design_ref="DESIGN.md section 4, C04",
        technique="self-differential monitor: every evaluation of seeded histories (evaluate plain / with input / with extra parameters, remove, clean over families of related queries) under each cache configuration vs the same evaluation under NoCache; recording proxy counts hits (no hit => vacuous => inconclusive)",
        text="17 cache configurations x seeded histories over query families (prefixes, extensions, link sub-queries, respellings; failing, volatile, cache-disabling, mutating commands); every evaluation compared on value/failure, volatility, variables, file name, extension. Exploration.",
        note="Commands deterministic; NoCache outcome is the reference (tied to the reference interpreter by C01)."),
    "C05": dict(
        category=_EXPL, design_ref="DESIGN.md section 4, C05",
        technique="cache-inspection monitor after every evaluation of the C04 histories: every listed key and every canonical/as-typed spelling evaluated so far is fetched and classified by the reference interpreter (failing / volatile / caching off / non-canonical) and compared with a fresh NoCache evaluation",
        text="Same histories as C04; after each evaluation thousands of keys are inspected per run; served data must be admissible, canonical and equal to a fresh evaluation. Exploration.",
        note="Admissibility classification trusted from the reference interpreter; volatility of link arguments is not propagated (as in the library)."),
    "C09": dict(
        category=_EXPL, design_ref="DESIGN.md section 4, C09",
        technique="call-log monitor: the commands executed by a cold evaluation, an immediate re-evaluation and an evaluation of an extension are compared with a simulation of a caching evaluator over the keys the cache kind admits (admission predicate of conditional caches evaluated on reference-interpreter attributes); contains/get checked after cacheable evaluations",
        text="17 cache kinds built by their documented constructors x seeded (query, extension) pairs with links, sub-evaluations, namespaces; any command executed more often than the simulation allows is a re-execution. Exploration.",
        note="Call logs compared as multisets; fewer executions than simulated are counted, not flagged (value correctness is C04)."),
    "C10": dict(
        category=_EXPL, design_ref="DESIGN.md section 4, C10",
        technique="snapshot monitors (configured defaults, every previously returned state, every value the cache serves) re-compared after every step of histories with in-place mutating commands and deliberate caller-side mutation of returned data/metadata, plus self-differential comparison with the NoCache reference from pristine defaults",
        text="Seeded histories over mutator / state-variable query families with mutable configured defaults under 9 cache kinds + no cache; every evaluation and every served value compared. Exploration.",
        note="Aliasing is detected through its effect (a later observed change), not by walking object graphs."),
    "C11": dict(
        category=_EXPL, design_ref="DESIGN.md section 4, C11",
        technique="runtime contracts (icontract post-conditions on encode_state_data: decode-back equality, same type, identifier dispatch; on copy_state_data: equality + aliasing walker over mutable objects and object cells) driven by per-pair value generators; (type, extension) pairs discovered by probing",
        text="Every (registered type, extension) pair that both writes and reads a sample is exercised with tens of thousands of seeded values from its documented domain (adversarial dictionary keys, non-finite floats, nested picklables, frames with mixed columns / missing values / empty / non-default index). Exploration.",
        note="Lossy renderings (csv/tsv/json/html of frames) excluded; values a non-default format cannot write are counted as unrepresentable."),
    "C17": dict(
        category=_EXPL, design_ref="DESIGN.md section 4, C17",
        technique="(a) differential + raw-snapshot monitor over histories through read-only views (every mutator incl. openbin write modes and mount must raise the read-only error and change nothing; every read equals the underlying store's); (b) enforcing audit-hook path-boundary monitor + os.stat/lstat wrappers around every directory-store operation for exhaustive traversal keys, reached directly, through mounts and through resource queries, beside sentinel files",
        text="(a) 8 store configurations x seeded histories, all mutators and reads per step; (b) all keys of depth <= 3/4 over {a, b.txt, ., .., '', __metadata__} with and without leading '/' plus absolute keys into the box x 13 operations x 4 routes, enumerated completely. Exploration (no symlinks).",
        note="The hook blocks every mutating event outside the root (the attempt is the observation); stat/mkdir of ancestors of the root and reads of Python source files are not store I/O."),
    "C18": dict(
        category=_EXPL, design_ref="DESIGN.md section 4, C18",
        technique="field-by-field metadata monitor: returned metadata, the cache's kept copy (cold and warm) and the store's copy (store_key) compared with the reference interpreter's record (last command, namespace, attributes, volatility, file name, links, sub-queries) and with type identifier / data characteristics recomputed from the actual value; command version from the registry",
        text="Seeded C01-vocabulary queries (successful, failing, links, sub-evaluations, namespaces, attribute commands, file names) under no cache, four cache kinds cold+warm and two store_key targets. Exploration.",
        note="Only the fields the statement names are compared; failure metadata may be filed under the canonical or the as-typed text."),
    "C16": dict(
        category="fault_enumeration", design_ref="DESIGN.md section 4, C16 and 3.6",
        technique="fork + file-system-operation crash injector: the operation's trace of mutating file-system operations is recorded, then the process is killed (os._exit) before every operation and inside every write (torn variants); a fresh cache/store object reads the entry in both orders and the observation is classified (nothing / complete old / complete new, bystander unchanged); interposer trace cross-validated against strace in the thorough tier",
        text="Every operation boundary and three torn variants per write of every case (6 components x store fresh / overwrite same and other type / metadata store / remove / recursive removedir x value types incl. > 64 KiB) are enumerated exhaustively; the fault model is process death.",
        note="Power loss (unsynced pages, directory-entry ordering) is not modelled: the code never calls fsync. A complete value accompanied by default ('external') store metadata is accepted; contradictory size/md5/caller fields are not."),
    "C12": dict(
        category=_EXPL, design_ref="DESIGN.md section 4, C12 and 3.5",
        technique="deterministic cooperative scheduler for real threads (one task runs between yield points; yield points = every cache operation of a proxy and, for file-backed caches, every mutating file-system operation); depth-first enumeration of schedules under a preemption bound, stateless re-execution; oracle = solo NoCache outcome per task + quiescent inspection of every served key",
        text="10 thread-usable cache kinds x 7 (quick) / 13 (thorough) scenarios of overlapping queries; all schedules with <= 2 (3) preemptions up to a per-scenario budget; distinct interleavings counted from (task, op, key) traces. Exploration: preemption inside one in-memory cache operation is not explored.",
        note="A task runs alone between yield points; branching only where the preempted operation's key is touched by another task."),
    "C08": dict(
        category=_EXPL, design_ref="DESIGN.md section 4, C08",
        technique="life-cycle reference-model monitor (recipe / ready / error per declared key) over histories of read, metadata, contains, list, remove, clean (through the documented -R-meta query) and re-read; call-log monitor for exactly-once evaluation incl. dependency recipes; expected bytes = reference-interpreter value of the harness-resolved absolute query serialised by the key's extension",
        text="Seeded recipes.yaml files (plain and dictionary form, local and sub-directory sections, './' and '../' references, failing recipes, txt/json/pickle results) at depth 0-2 of memory- and directory-backed recipe stores used directly or mounted at one/two-component prefixes. Exploration.",
        note="Global cache is NoCache; re-reads of failing recipes are not constrained."),
    "C20": dict(
        category=_EXPL, design_ref="DESIGN.md section 4, C20",
        technique="differential monitor: Flask test client on the real blueprint vs the library called directly - query responses vs in-process evaluation serialised by extension; cache/store endpoint histories vs an identically prepared twin with full views compared after every call; exhaustive enable/disable histories (length <= 4) of remote registration; RemoteStore (HTTP calls rebound to the test client) vs the twin store",
        text="Seeded C01-vocabulary queries with all result types and a dozen extensions (plain, URL arguments, JSON body, failing), seeded cache and store endpoint histories on memory / directory / default-composition stores, all 31 registration histories x GET/POST, RemoteStore histories. Exploration.",
        note="No sockets: the WSGI app is driven in-process; query text is percent-quoted on the way in."),
}
