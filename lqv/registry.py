"""What is claimed, per property (source of MANIFEST.json; see tools_manifest.py)."""

HOOK_COMMITS = []
NOTES = ("All checks are runtime monitoring of the real liquer code (no prover / model checker decides anything). "
         "Exit 2 + 'INCONCLUSIVE' means a deciding monitor was not reached; it never happens on the unchanged tree. "
         "known_findings.jsonl lists genuine defects by mechanism signature; 'fixed' entries suppress nothing.")
NOT_CLAIMED = {}

_EXPL = "exploration"

CHECKS = {
    "C03": dict(
        category=_EXPL, design_ref="DESIGN.md section 4, C03",
        technique="runtime contracts (icontract post-conditions on encode_token / StringActionParameter.encode) + encode-parse embedding oracle over exhaustive and random token workloads",
        text="Held on every Unicode scalar value as a token and on every short string over the structurally significant alphabet (both enumerated completely), plus seeded random long strings, at every argument position incl. nested links, header parameters and the list form. Exploration: a long input outside these shapes can be missed.",
        note="Trusts urllib.parse.quote/unquote and pyparsing as shipped; lone surrogates are outside the quantifier."),
    "C02": dict(
        category=_EXPL, design_ref="DESIGN.md section 4, C02",
        technique="runtime contract (icontract post-condition on liquer.parser.parse, rebound in every importing module): canonical text re-parses to the same structure and re-encodes identically; bounded-exhaustive token sequences + grammar-directed random sentences + mutations",
        text="Every accepted text met by the workload (all concatenations of up to 3/4 symbols of a 28-symbol token alphabet, tens of thousands of random grammar sentences with nested links, headers of level 1-3, -R headers, resource paths, file names) is checked by the contract. Exploration: unusual long sentences can be missed.",
        note="Structure comparison ignores positions only; trusts pyparsing. One genuine grammar ambiguity is a listed known finding."),
    "C19": dict(
        category=_EXPL, design_ref="DESIGN.md section 4, C19",
        technique="runtime contracts (icontract post-conditions on ResourceQuerySegment.to_absolute and Query.to_absolute) against a component-list normalisation model; exhaustive small paths x directories, random multi-segment queries; idempotence and untouched-segment conditions",
        text="All 31 directories x all paths of up to 4 (quick) / 6 (thorough) components over {a,b,.,..,x.y} enumerated completely; random queries with several named resource segments, header parameters and transformations. Exploration beyond those bounds.",
        note="Model is 15 lines (anchor on leading '.'/'..', pop on '..', reject above root); directory argument assumed normalised."),
}
