"""What is claimed, per property (source of MANIFEST.json; see tools_manifest.py)."""

HOOK_COMMITS = []
NOTES = ("All checks are runtime monitoring of the real liquer code (no prover / model checker decides anything). "
         "Exit 2 + 'INCONCLUSIVE' means a deciding monitor was not reached; it never happens on the unchanged tree. "
         "known_findings.jsonl lists genuine defects by mechanism signature; 'fixed' entries suppress nothing.")
NOT_CLAIMED = {}

_EXPL = "exploration"

CHECKS = {
    "C03": dict(
        category=_EXPL, design_ref="DESIGN.md section 4, C03",
        technique="runtime contracts (icontract post-conditions on encode_token / StringActionParameter.encode) + encode-parse embedding oracle over exhaustive and random token workloads",
        text="Held on every Unicode scalar value as a token and on every short string over the structurally significant alphabet (both enumerated completely), plus seeded random long strings, at every argument position incl. nested links, header parameters and the list form. Exploration: a long input outside these shapes can be missed.",
        note="Trusts urllib.parse.quote/unquote and pyparsing as shipped; lone surrogates are outside the quantifier."),
}
