"""The instrumented command vocabulary V (DESIGN 3.1) and its call log.

All commands are deterministic functions of their inputs.  Every command appends
(name, thread id, sequence number) to the current call log before doing anything else.
The reference interpreter calls the same undecorated functions with the log switched to a
scratch list, so the real evaluation's log is the observable for 'executed / not executed / once'.
"""
import threading

_lock = threading.Lock()
_seq = [0]
LOG = []  # current call log (swap with use_log)


def use_log(lst):
    global LOG
    LOG = lst
    return lst


def _log(name):
    with _lock:
        _seq[0] += 1
        LOG.append((name, threading.get_ident(), _seq[0]))


def _is_num(x):
    return isinstance(x, (int, float)) and not isinstance(x, bool)


def _r(x):
    """deterministic short repr (data frames by shape/columns/values)"""
    try:
        import pandas as pd

        if isinstance(x, pd.DataFrame):
            return "DF%s%s" % (list(x.columns), x.values.tolist())
    except Exception:
        pass
    return repr(x)


# ---- first commands -------------------------------------------------------

def one():
    _log("one")
    return 1


def lit(x="dflt"):
    _log("lit")
    return x


def num(x: int = 7):
    _log("num")
    return x


def flt(x: float = 0.5):
    _log("flt")
    return x


def mk(kind="list", n: int = 2):
    _log("mk")
    if kind == "list":
        return list(range(n))
    if kind == "dict":
        return {"k%d" % i: i for i in range(n)}
    if kind == "idict":
        # keys that are not text, a tuple among the members
        return {1: "one", 2: (n, n + 1), (3, 4): [n]}
    if kind == "bigbytes":
        return bytes(range(256)) * max(1, n)
    if kind == "udict":
        # keys deliberately not in sorted order, one level nested (insertion order is part of what a dictionary is)
        return {"zeta": 0, "alpha": {"y": n, "b": 1}, "mid": list(range(n))}
    if kind == "nested":
        return {"a": [1, {"b": list(range(n))}], "s": "x"}
    if kind == "df":
        import pandas as pd

        return pd.DataFrame({"a": list(range(n)), "b": [str(i) for i in range(n)]})
    if kind == "bytes":
        return b"b" * n
    if kind == "text":
        return "t" * n
    if kind == "none":
        return None
    if kind == "float":
        return n / 2.0
    if kind == "inf":
        return float("inf") if n % 2 == 0 else float("-inf")
    if kind == "nan":
        return float("nan")
    if kind == "matrix":
        return [[i, i + 1] for i in range(n)]
    if kind == "lod":
        return [{"i": i, "l": [i]} for i in range(n)]
    if kind == "tuple":
        return tuple(range(n))
    if kind == "tlist":
        # an immutable container holding mutable ones
        return tuple([i] for i in range(max(1, n)))
    if kind == "pairs":
        return [(i, str(i)) for i in range(n)]
    if kind == "set":
        return set(range(n))
    raise ValueError("unknown kind " + repr(kind))


def firstcat(*parts):
    _log("firstcat")
    return "|".join(_r(p) if not isinstance(p, str) else p for p in parts)


# ---- data-taking commands ---------------------------------------------------

def add(x, y: int = 1):
    _log("add")
    if _is_num(x):
        return x + y
    return "%s+%d" % (_r(x) if not isinstance(x, str) else x, y)


def mulf(x, y: float = 2.0):
    _log("mulf")
    if _is_num(x):
        return x * y
    return "%s*%r" % (_r(x) if not isinstance(x, str) else x, y)


def flagged(x, b: bool = False, s="s"):
    _log("flagged")
    return "%s|%r|%s" % (_r(x), b, s if isinstance(s, str) else _r(s))


def pair(x, a, b="B"):
    _log("pair")
    return "%s|%s|%s" % (_r(x), _r(a), _r(b))


def none_default(x, a=None):
    _log("none_default")
    return "%s|%s" % (_r(x), _r(a))


def optint(x, y: int = None):
    _log("optint")
    return "%s|%s" % (_r(x), _r(y))


def optfb(x, f: float = None, b: bool = None):
    _log("optfb")
    return "%s|%s|%s" % (_r(x), _r(f), _r(b))


def scale(x, f: float = 1.0, t: str = 0):
    """annotations and defaults of different types: the annotation decides how a textual argument is converted"""
    _log("scale")
    return "%s|%s|%s" % (_r(x), _r(f), _r(t))


def unann(x, y=3):
    _log("unann")
    return "%s|%s|%s" % (_r(x), _r(y), type(y).__name__)


def cat(x, *rest):
    _log("cat")
    return "|".join([x if isinstance(x, str) else _r(x)] + [r if isinstance(r, str) else _r(r) for r in rest])


def ident(x):
    _log("ident")
    return x


# ---- context commands ------------------------------------------------------

def withctx(x, a="d", context=None):
    _log("withctx")
    return "%s|%s|%r" % (_r(x), a if isinstance(a, str) else _r(a), context is not None)


def ctxvar(x, name="v1", context=None):
    """reads a state variable through the context (the variables set to its left, wherever the input came from)"""
    _log("ctxvar")
    return "%s|%s" % (_r(x), _r(context.vars.get(name)))


def sub(x, q, context=None):
    _log("sub")
    v = context.evaluate(q).get()
    return "%s<%s>" % (_r(x), _r(v))


def subin(x, q, context=None):
    """evaluates the transformation q on its own input, injected from inside the running evaluation
    (what context.evaluate_on does): that sub-evaluation and its intermediates must never be cached under plain keys"""
    _log("subin")
    v = context.evaluate(q, input_value=x).get()
    return "%s<<%s>>" % (_r(x), _r(v))


def nocache(x, context=None):
    _log("nocache")
    context.disable_cache()
    return x


def recache(x, context=None):
    """asks for caching explicitly; what an earlier step switched off stays off for everything downstream"""
    _log("recache")
    context.enable_cache()
    return x


def ctxmut(x, name="mlist", context=None):
    """mutates, in place, the value of a state variable as seen through the context (has no visible effect on the
    result: the result's variables come from the command's own state copy)"""
    _log("ctxmut")
    v = context.vars.get(name)
    if isinstance(v, list):
        v.append("ctx")
    elif isinstance(v, dict):
        v["ctx"] = 1
    elif isinstance(v, set):
        v.add("ctx")
    elif isinstance(v, tuple) and v and isinstance(v[0], list):
        v[0].append("ctx")
    return x


# ---- state-taking commands ---------------------------------------------------

def getvar(state, name):
    _log("getvar")
    return state.vars.get(name)


def tag(state, t):
    _log("tag")
    state.vars["tag"] = t
    return state


def mutvar(state, name):
    _log("mutvar")
    v = state.vars.get(name)
    if isinstance(v, list):
        v.append("m")
    elif isinstance(v, dict):
        v["m"] = "m"
    elif isinstance(v, set):
        v.add("m")
    elif isinstance(v, tuple) and v and isinstance(v[0], list):
        v[0].append("m")
    return state


# ---- namespaces ----------------------------------------------------------------

def _alt_add(x, y: int = 1):
    _log("alt.add")
    return "alt(%s,%d)" % (_r(x), y)


_alt_add.__name__ = "add"


def only_alt(x):
    _log("only_alt")
    return "only_alt(%s)" % _r(x)


# ---- attributes -----------------------------------------------------------------

def attr_up(x):
    _log("attr_up")
    return x


def attr_low(x):
    _log("attr_low")
    return x


def attr_false(x):
    """attributes that are present but false: a condition on an attribute looks at its value, not at its presence"""
    _log("attr_false")
    return x


def attr_camel(x):
    """attributes in mixed case with a lower-case initial: not capitalised, hence not inherited"""
    _log("attr_camel")
    return x


# ---- failing ----------------------------------------------------------------------

def boom(x):
    _log("boom")
    raise ValueError("boom on %s" % _r(x))


def boom0(x):
    """fails without saying anything (a bare assert, raise ValueError())"""
    _log("boom0")
    raise ValueError()


def needs(x, required):
    _log("needs")
    return "%s|%s" % (_r(x), _r(required))


# ---- cache control -------------------------------------------------------------------

def vol(x):
    _log("vol")
    return x


def nonvol(x):
    """registered with an explicit volatile=False: says nothing about its input, which may well be volatile"""
    _log("nonvol")
    return x


# ---- in-place mutators -----------------------------------------------------------------

def push(x, v="p"):
    _log("push")
    if isinstance(x, list):
        x.append(v)
        return x
    return [x, v]


def setkey(x, k, v):
    _log("setkey")
    if isinstance(x, dict):
        x[k] = v
        return x
    return {k: v}


def argmut(x, a, b="-"):
    """mutates, in place, its first ARGUMENT (typically the value of a link); a second argument given by the same link
    text is a value of its own and must not show the change"""
    _log("argmut")
    if isinstance(a, list):
        a.append("ARG")
    elif isinstance(a, dict):
        a["ARG"] = 1
    return "%s|%s|%s" % (_r(x), _r(a), _r(b))


def deepmut(x, v="deep"):
    """mutates, in place, an element nested inside the input (depth 2)"""
    _log("deepmut")
    if isinstance(x, tuple) and x and isinstance(x[0], list):
        x[0].append(v)
    elif isinstance(x, list) and x:
        if isinstance(x[0], list):
            x[0].append(v)
        elif isinstance(x[0], dict):
            x[0][v] = 1
            if isinstance(x[0].get("l"), list):
                x[0]["l"].append(v)
    elif isinstance(x, dict):
        for val in x.values():
            if isinstance(val, list):
                val.append(v)
                break
    return x


def dfcol(x, name):
    _log("dfcol")
    import pandas as pd

    if isinstance(x, pd.DataFrame):
        x[name] = 1
        return x
    return pd.DataFrame({name: [1]})


# ---- canaries ------------------------------------------------------------------------------

def after1(x):
    _log("after1")
    return x


def after2(x):
    _log("after2")
    return x


def after3(x):
    _log("after3")
    return x


FIRST = [one, lit, num, flt, mk, firstcat]
DATA = [add, mulf, flagged, pair, none_default, optint, optfb, scale, unann, cat, ident, withctx, ctxvar, sub, subin, nocache, recache, ctxmut, boom, boom0, needs,
        push, setkey, dfcol, deepmut, argmut, after1, after2, after3]
STATE = [getvar, tag, mutvar]
ATTRS = {"attr_up": dict(ABC="abc"), "attr_low": dict(abc="x"), "vol": dict(volatile=True),
         "attr_camel": dict(contextMenu="m", sourceURL="u", Xy="kept"), "nonvol": dict(volatile=False),
         "attr_false": dict(ABC=False, abc=False)}


_basic = []


def basic_wrappers():
    """liquer.ext.basic's state-variable commands, wrapped only to append to the call log"""
    if _basic:
        return _basic
    import liquer.ext.basic as B

    def let(state, name, value):
        _log("let")
        return B.let(state, name, value)

    def flag(state, name, value: bool = True):
        _log("flag")
        return B.flag(state, name, value)

    def ns(state, *namespaces):
        _log("ns")
        return B.ns(state, *namespaces)

    def filename(state, name):
        _log("filename")
        return B.filename(state, name)

    def state_variable(state, name):
        _log("state_variable")
        return B.state_variable(state, name)

    _basic.extend([let, flag, ns, filename, state_variable])
    return _basic


def table():
    """namespace -> name -> (function, kind, attributes); kind in first/data/state. Includes liquer.ext.basic's
    state-variable commands (their undecorated functions)."""
    import liquer.ext.basic as B
    import liquer.ext.lq_pandas  # noqa: registers the data-frame state type (and its commands, dropped by the reset)

    t = {"root": {}, "alt": {}}
    for f in FIRST:
        t["root"][f.__name__] = (f, "first", {})
    for f in DATA:
        t["root"][f.__name__] = (f, "data", {})
    for f in (attr_up, attr_low, attr_camel, attr_false, vol, nonvol):
        t["root"][f.__name__] = (f, "data", dict(ATTRS[f.__name__]))
    for f in STATE:
        t["root"][f.__name__] = (f, "state", {})
    for f in basic_wrappers():
        t["root"][f.__name__] = (f, "state", {})
    t["alt"]["add"] = (_alt_add, "data", {})
    t["alt"]["only_alt"] = (only_alt, "data", {})
    return t


def register_all():
    """Fresh CommandRegistry holding V, through the public decorators."""
    from liquer.commands import command, first_command, reset_command_registry

    tbl = table()  # imports liquer.ext.basic (which registers its own commands) before the registry is reset
    reset_command_registry()
    for nsname, cmds in tbl.items():
        for name, (f, kind, attrs) in cmds.items():
            kw = dict(attrs)
            kw["ns"] = nsname
            if kind == "first":
                first_command(f, **kw)
            else:
                command(f, **kw)
