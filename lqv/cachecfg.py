"""Cache configurations under test (every provided back-end and combinator, built by its documented constructor
or factory) and the admission predicate of conditional caches."""
import os

XOR_CODE = bytes([0x17, 0x2A, 0x5C, 0x91, 0xE3, 0x4D, 0x08, 0xB6, 0x7F, 0x33, 0xC5])  # no zero byte

ALL_KINDS = [
    "memory", "file", "xor", "fernet", "sql", "sqlstring",
    "store_mem_nested", "store_mem_flat", "store_file_nested", "store_file_flat",
    "proxy(memory)", "memory.if_contains(ABC)", "memory.if_not_contains(ABC)",
    "memory.if_attribute_equal(ABC,abc)", "memory.if_attribute_not_equal(ABC,abc)",
    "memory.if_contains(ABC)+file", "memory+memory",
    "store_mem_nested.if_not_contains(abc)", "file.if_not_contains(abc)", "shared_memory.if_contains(ABC)+if_not_contains(ABC)",
    "memory.if_contains(ABC)+memory.if_not_contains(abc)+memory",
]
FILE_BACKED = {"file", "xor", "fernet", "store_file_nested", "store_file_flat", "memory.if_contains(ABC)+file",
               "file.if_not_contains(abc)"}
THREAD_USABLE = ["memory", "file", "xor", "fernet", "store_mem_nested", "store_mem_flat", "store_file_nested",
                 "store_file_flat", "sql_shared", "memory+file"]


class BuiltCache:
    def __init__(self, cache, dirs, kind):
        self.cache = cache
        self.dirs = dirs      # raw directories holding cache files (for plaintext scans)
        self.kind = kind


_n = [0]


def _dir(scratch, name):
    _n[0] += 1
    d = os.path.join(scratch, "%s_%d_%d" % (name, os.getpid(), _n[0]))
    os.makedirs(d, exist_ok=True)
    return d


def build(kind, scratch):
    from liquer.cache import (MemoryCache, FileCache, XORFileCache, FernetFileCache, SQLCache, SQLStringCache,
                              StoreCache, CacheProxy)
    from liquer.store import MemoryStore, FileStore

    if kind == "memory":
        return BuiltCache(MemoryCache(), [], kind)
    if kind == "file":
        d = _dir(scratch, "fc")
        return BuiltCache(FileCache(d), [d], kind)
    if kind == "xor":
        d = _dir(scratch, "xc")
        return BuiltCache(XORFileCache(d, XOR_CODE), [d], kind)
    if kind == "fernet":
        from cryptography.fernet import Fernet

        d = _dir(scratch, "fe")
        return BuiltCache(FernetFileCache(d, Fernet.generate_key()), [d], kind)
    if kind == "sql":
        return BuiltCache(SQLCache.from_sqlite(), [], kind)
    if kind == "sql_shared":
        import sqlite3

        c = sqlite3.connect(":memory:", check_same_thread=False)
        return BuiltCache(SQLCache(connection=c, delete_before_insert=True), [], kind)
    if kind == "sqlstring":
        return BuiltCache(SQLStringCache.from_sqlite(), [], kind)
    if kind.startswith("store_") and "." not in kind:
        _, where, shape = kind.split("_")
        if where == "mem":
            st, dirs = MemoryStore(), []
        else:
            d = _dir(scratch, "sc")
            st, dirs = FileStore(d), [d]
        return BuiltCache(StoreCache(st, "cache", flat=(shape == "flat")), dirs, kind)
    if kind == "proxy(memory)":
        return BuiltCache(CacheProxy(MemoryCache()), [], kind)
    if kind == "memory.if_contains(ABC)":
        return BuiltCache(MemoryCache().if_contains("ABC"), [], kind)
    if kind == "memory.if_not_contains(ABC)":
        return BuiltCache(MemoryCache().if_not_contains("ABC"), [], kind)
    if kind == "memory.if_attribute_equal(ABC,abc)":
        return BuiltCache(MemoryCache().if_attribute_equal("ABC", "abc"), [], kind)
    if kind == "memory.if_attribute_not_equal(ABC,abc)":
        return BuiltCache(MemoryCache().if_attribute_not_equal("ABC", "abc"), [], kind)
    if kind == "memory.if_contains(ABC)+file":
        d = _dir(scratch, "cf")
        return BuiltCache(MemoryCache().if_contains("ABC") + FileCache(d), [d], kind)
    if kind == "memory+file":
        d = _dir(scratch, "mf")
        return BuiltCache(MemoryCache() + FileCache(d), [d], kind)
    if kind == "memory+memory":
        return BuiltCache(MemoryCache() + MemoryCache(), [], kind)
    if kind == "store_mem_nested.if_not_contains(abc)":
        return BuiltCache(StoreCache(MemoryStore(), "cache").if_not_contains("abc"), [], kind)
    if kind == "file.if_not_contains(abc)":
        d = _dir(scratch, "fn")
        return BuiltCache(FileCache(d).if_not_contains("abc"), [d], kind)
    if kind == "memory.if_contains(ABC)+memory.if_not_contains(abc)+memory":
        # three members, laid out like the rules of the repository's own cache test
        return BuiltCache(MemoryCache().if_contains("ABC") + MemoryCache().if_not_contains("abc") + MemoryCache(), [], kind)
    if kind == "shared_memory.if_contains(ABC)+if_not_contains(ABC)":
        c = MemoryCache()  # one back-end behind both conditions: the usual way to write an OR of conditions
        return BuiltCache(c.if_contains("ABC") + c.if_not_contains("ABC"), [], kind)
    raise ValueError(kind)


def admits(kind, attributes):
    """Does the configuration admit a result whose metadata attributes are ``attributes``?  (documented contract of
    the conditional wrappers; '+' = first cache that accepts)"""
    a = attributes or {}
    if kind == "memory.if_contains(ABC)":
        return bool(a.get("ABC", False))
    if kind == "memory.if_not_contains(ABC)":
        return not bool(a.get("ABC", False))
    if kind == "memory.if_attribute_equal(ABC,abc)":
        return a.get("ABC") == "abc"
    if kind == "memory.if_attribute_not_equal(ABC,abc)":
        return a.get("ABC") != "abc"
    if kind.endswith(".if_not_contains(abc)"):
        return not bool(a.get("abc", False))
    return True
