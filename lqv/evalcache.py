"""Shared engine of the evaluator+cache properties (C04, C05, C09, C10, C18): real evaluations under a cache
configuration compared with the same evaluations under NoCache (self-differential monitor), cache inspection against the
reference interpreter's classification, and a simulation of which commands a caching evaluator has to execute."""
import copy
import signal

from lqv import refinterp as R
from lqv import vocab


class Timeout(Exception):
    pass


def _alarm(signum, frame):
    raise Timeout()


INPUTS = [5, "inp", 2.5, [1, 2], {"k": 1}, b"by", 0, "", []]


class Env:
    def __init__(self, default_vars=None):
        from liquer.cache import set_cache, NoCache
        from liquer.store import set_store, MemoryStore
        import liquer.state as S

        vocab.register_all()
        set_cache(NoCache())
        self.store = MemoryStore()
        self.resources = {"res.txt": b"RES-TEXT", "dir/n.json": b"42", "dir/sub/b.bin": b"\x00\x01bin"}
        for k, v in self.resources.items():
            self.store.store(k, v, {})
        # a key that is known to the store (it has metadata) but whose data can not be obtained
        self.store.store_metadata("dir/metaonly.txt", {"status": "recipe", "title": "never produced"})
        set_store(self.store)
        S._vars = copy.deepcopy(default_vars or {})
        self.default_vars = copy.deepcopy(default_vars or {})
        self.ref = R.RefInterp(default_vars=self.default_vars)
        self.ref.resource_lookup = lambda k: self.resources.get(k)
        self._ref_real = {}
        self._ref_interp = {}
        self.counters = {}
        signal.signal(signal.SIGALRM, _alarm)

    def count(self, k, n=1):
        self.counters[k] = self.counters.get(k, 0) + n

    # ---- real evaluation ----------------------------------------------------------
    def evaluate(self, q, input_idx=None, extra=None, cache=None, via="plain"):
        """evaluate under the given global cache; returns (outcome dict, state or None, call log).
        via: "plain" - Context().evaluate with the cache installed globally; "empty_extra_dict/list" - the same with an
        empty container of extra parameters; "debug" - the same from a Context(debug=True)
        (debug messages travel through the same progress-metadata writes); "cache_arg" - the cache is handed to this one
        call (evaluate(q, cache=c)) while the global cache is NoCache."""
        from liquer.cache import set_cache, NoCache
        from liquer.context import Context

        kw = {}
        if via in ("empty_extra_dict", "empty_extra_list") and not extra:
            # what the web handlers pass on every plain request: an empty container of extra parameters
            extra = {} if via == "empty_extra_dict" else []
        if via == "cache_arg" and cache is not None:
            set_cache(NoCache())
            kw["cache"] = getattr(cache, "inner", cache)   # the cache object itself, not the recording wrapper
        else:
            set_cache(cache if cache is not None else NoCache())
        self.count("via." + via)
        log = vocab.use_log([])
        inp = None if input_idx is None else copy.deepcopy(INPUTS[input_idx])
        signal.alarm(40)
        try:
            try:
                ctx = Context(debug=True) if via == "debug" else Context()
                st = ctx.evaluate(q, input_value=inp, extra_parameters=copy.deepcopy(extra), **kw)
                exc = None
            except Timeout:
                self.count("timeouts")
                return None, None, log
            except Exception as e:
                st, exc = None, e
        finally:
            signal.alarm(0)
        # the value handed in belongs to the caller: evaluating on it must not change it
        self.input_mutated = None
        if input_idx is not None and not R.equal(inp, INPUTS[input_idx]):
            self.input_mutated = (R.short(INPUTS[input_idx]), R.short(inp))
            self.count("injected_input_mutated")
        return outcome_of(st, exc), st, log

    def reference(self, q, input_idx=None, extra=None):
        """outcome of the real evaluator without any cache (memoised; commands are deterministic)"""
        key = (q, input_idx, repr(extra))
        if key not in self._ref_real:
            saved = vocab.LOG
            out, _st, log = self.evaluate(q, input_idx, extra, cache=None)
            vocab.use_log(saved)
            if out is not None:
                out["executions"] = len(log)
            self._ref_real[key] = out
        return self._ref_real[key]

    def json_tainted(self, q):
        """does evaluating q involve a (sub)query whose value is a dictionary, or whose state variables are, not equal
        to their own JSON image (tuples, non-text keys)?  Serialising caches file dictionaries and metadata as JSON, so
        everything computed from such a cached entry may differ: one mechanism, the listed finding of C04 / C05."""
        keys = {q}
        keys.update(prefixes_of(q))
        for l in link_queries_of(q):
            keys.add(l)
            keys.update(prefixes_of(l))
        for k in sorted(keys):
            try:
                ref = self.reference(k)
            except Exception:
                continue
            if ref and ref.get("ok") and not (json_stable(ref.get("value")) and json_stable(ref.get("vars"))):
                return True
        return False

    def interp(self, q):
        """reference interpreter outcome for query text (Ok / Fail / None when unsupported or over budget)"""
        if q not in self._ref_interp:
            from liquer.parser import parse

            saved = vocab.LOG
            vocab.use_log([])
            try:
                try:
                    r = self.ref.run(parse(q))
                except R.Budget:
                    r = None
                    self.count("interp_over_budget")
                except Exception:
                    r = None
                    self.count("interp_unsupported")
            finally:
                vocab.use_log(saved)
            self._ref_interp[q] = r
        return self._ref_interp[q]


def outcome_of(st, exc):
    if exc is not None:
        return {"ok": False, "how": "raise", "msg": repr(exc)[:200]}
    if st.is_error:
        return {"ok": False, "how": "error_state", "msg": str(st.metadata.get("message"))[:200]}
    try:
        v = st.get()
    except Exception as e:
        return {"ok": False, "how": "get_raises", "msg": repr(e)[:200]}
    return {"ok": True, "value": copy.deepcopy(v), "volatile": bool(st.is_volatile()), "vars": copy.deepcopy(dict(st.vars)),
            "filename": st.metadata.get("filename"), "extension": st.metadata.get("extension") or None}


JSON_IMAGE = "state_variables_json_image"
VALUE_JSON_IMAGE = "value_json_image"
SERVED_JSON_IMAGE = "served_data_is_json_image_of_fresh_evaluation"
JSON_IMAGE_FIELDS = (JSON_IMAGE, VALUE_JSON_IMAGE, SERVED_JSON_IMAGE)


def json_stable(v):
    import json

    if not isinstance(v, dict):
        return True
    try:
        return R.equal(json.loads(json.dumps(v)), v)
    except Exception:
        return True    # cannot be filed as JSON at all: the cache refuses it, nothing is served


def json_image_explains(ref_value, got_value):
    """True when got is exactly what JSON makes of ref (tuples -> lists, non-text keys -> text): dictionaries are filed
    by serialising caches in their default format, JSON.  One mechanism, listed as a finding of C04 and C05."""
    import json

    if not isinstance(ref_value, dict):
        return False
    try:
        return R.equal(json.loads(json.dumps(ref_value)), got_value)
    except Exception:
        return False


def compare_outcomes(ref, got, env=None, q=None):
    """list of (field, detail); failure is compared as failure only (how it fails is C06's subject).
    With env and q given, value / state-variable differences of a query that involves a JSON-unstable dictionary
    (Env.json_tainted) are reported under the JSON-image field names."""
    d = _compare_outcomes(ref, got)
    if env is not None and q is not None and any(f in ("value", "state_variables") for f, _ in d):
        if env.json_tainted(q):
            d = [({"value": VALUE_JSON_IMAGE, "state_variables": JSON_IMAGE}.get(f, f), x) for f, x in d]
    return d


def _compare_outcomes(ref, got):
    d = []
    if ref is None or got is None:
        return d
    if ref["ok"] != got["ok"]:
        d.append(("success_vs_failure", "without cache %s, with cache %s" % (
            "value %s" % R.short(ref.get("value")) if ref["ok"] else "fails (%s)" % ref.get("msg"),
            "value %s" % R.short(got.get("value")) if got["ok"] else "fails (%s)" % got.get("msg"))))
        return d
    if not ref["ok"]:
        return d
    if not R.equal(ref["value"], got["value"]):
        d.append((VALUE_JSON_IMAGE if json_image_explains(ref["value"], got["value"]) else "value",
                  "without cache %s (%s), with cache %s (%s)" % (
            R.short(ref["value"]), type(ref["value"]).__name__, R.short(got["value"]), type(got["value"]).__name__)))
    if ref["volatile"] != got["volatile"]:
        d.append(("volatility", "without cache %r, with cache %r" % (ref["volatile"], got["volatile"])))
    if not R.dict_equal_unordered(ref["vars"], got["vars"]):
        field = "state_variables"
        try:
            # state variables travel in the JSON metadata of serialising caches: a value JSON has no native form for
            # (a tuple) comes back as its JSON image (a list).  A mechanism of its own (C04's listed finding); the
            # properties that do not speak about state variables ignore it (JSON_IMAGE).
            import json

            if R.dict_equal_unordered(json.loads(json.dumps(ref["vars"])), got["vars"]):
                field = JSON_IMAGE
        except Exception:
            pass
        d.append((field, "without cache %r, with cache %r" % (ref["vars"], got["vars"])))
    if ref["filename"] != got["filename"]:
        d.append(("filename", "without cache %r, with cache %r" % (ref["filename"], got["filename"])))
    if ref["extension"] != got["extension"]:
        d.append(("extension", "without cache %r, with cache %r" % (ref["extension"], got["extension"])))
    return d


# ------------------------------------------------------------------------------------
# query families


def own_predecessor(query):
    """(predecessor, remainder) of a parsed query, computed from its structure (not by the library's own
    Query.predecessor, which is part of what is being checked): the remainder is the trailing file name, else the last
    action of the last transformation segment; the predecessor keeps everything else, the leading '/' included."""
    from liquer.parser import Query, TransformQuerySegment

    segs = list(query.segments)
    if not segs or not isinstance(segs[-1], TransformQuerySegment):
        return None, None
    last = segs[-1]
    acts = list(last.query)
    if last.filename is not None:
        rest = TransformQuerySegment(header=last.header, query=acts, filename=None)
        rem = TransformQuerySegment(header=last.header, query=[], filename=last.filename)
    elif acts:
        rest = TransformQuerySegment(header=last.header, query=acts[:-1], filename=None)
        rem = TransformQuerySegment(header=last.header, query=[acts[-1]], filename=None)
    else:
        return Query(segs[:-1], absolute=query.absolute), None
    if len(rest.query) == 0:
        return Query(segs[:-1], absolute=query.absolute), rem
    return Query(segs[:-1] + [rest], absolute=query.absolute), rem


def prefixes_of(q):
    """canonical texts of all proper prefixes (and the query itself) of a transformation query text"""
    from liquer.parser import parse

    out = []
    try:
        p = parse(q)
    except Exception:
        return out
    while p is not None and not p.is_empty():
        out.append(p.encode())
        p, _ = own_predecessor(p)
    return out


def link_queries_of(q):
    """canonical texts of the link sub-queries a query evaluates (absolute: own text; relative: prefix + link)"""
    from liquer.parser import parse, LinkActionParameter, TransformQuerySegment

    out = []
    try:
        p = parse(q)
    except Exception:
        return out

    def walk(query):
        if len(query.segments) != 1 or not isinstance(query.segments[0], TransformQuerySegment):
            return
        acts = list(query.segments[0].query)
        for i, a in enumerate(acts):
            for prm in a.parameters:
                if isinstance(prm, LinkActionParameter):
                    link = prm.link
                    if link.absolute or i == 0:
                        out.append(link.encode())
                        walk(link)
                    else:
                        pre = "/".join(x.encode() for x in acts[:i])
                        try:
                            j = parse(pre + "/" + link.encode())
                            out.append(j.encode())
                            walk(j)
                        except Exception:
                            pass

    walk(p)
    return out


def respell(rnd, q):
    """an as-typed, non-canonical spelling of the same query (percent-escape of a plain character of an argument)"""
    cands = [i for i, ch in enumerate(q) if ch.isalnum() and i > 0 and q[i - 1] == "-" and q[:i].count("~X~") == q[:i].count("~E")]
    if not cands:
        return None
    i = rnd.choice(cands)
    return q[:i] + "%%%02X" % ord(q[i]) + q[i + 1:]


EXTENSIONS = ["add-1", "cat-x", "ident", "mulf-2", "flagged-t", "let-v1-q/getvar-v1", "attr_up", "attr_low/ident",
              "cat-~X~ident~E", "add-~X~/one~E", "withctx-w", "push-z", "none_default", "ctxvar-v1", "ctxvar-tag"]


def family(rnd, g, base=None):
    """a target query and queries related to it: prefixes, extensions, link sub-queries, respellings"""
    if base is None and rnd.random() < 0.12:
        # a transformation of a resource read from the (fixed) store contents
        base = rnd.choice(["res.txt", "dir/n.json", "-R/dir/sub/b.bin", "nokey.txt"]) + "/-/" + g.query(0, first=False, max_len=3)
    t = base or g.query(0)
    fam = [t]
    fam += prefixes_of(t)[1:]
    fam += link_queries_of(t)
    for _ in range(2):
        fam.append(t + "/" + rnd.choice(EXTENSIONS))
    pf = prefixes_of(t)
    if len(pf) > 1:
        fam.append(rnd.choice(pf[1:]) + "/" + rnd.choice(EXTENSIONS))
    r = respell(rnd, t)
    if r:
        fam.append(r)
    # the same results labelled by a trailing file name (must not rub off on the unlabelled keys)
    fam.append(t + "/" + rnd.choice(["out.txt", "res.json", "x.pickle", "r.tar.gz"]))
    if rnd.random() < 0.5:
        fam.append(t + "/" + rnd.choice(["res.json", "v.csv", "w.html"]))   # a name whose format is not the type's own
    if len(pf) > 1 and rnd.random() < 0.5:
        fam.append(rnd.choice(pf[1:]) + "/" + rnd.choice(["p.txt", "q.b"]))
    seen, out = set(), []
    for q in fam:
        if q not in seen:
            seen.add(q)
            out.append(q)
    return out


# ------------------------------------------------------------------------------------
# C05 oracle: what may a cache serve?


def inspect_cache(env, cache, keys, viol, kindlabel):
    """For every key: if the cache serves a state for it, the key must be canonical, admissible (not failing, not
    volatile, caching not switched off) and the data must equal a fresh evaluation of the key."""
    from liquer.parser import parse

    try:
        listed = list(cache.keys())
    except Exception as e:
        viol("keys_raises", "cache.keys() raised %r" % (e,), None)
        listed = []
    for k in sorted(x for x in (set(listed) | set(keys)) if isinstance(x, str)):
        if k in (None, ""):
            continue
        env.count("inspected_keys")
        try:
            g = cache.get(k)
        except Exception as e:
            viol("get_raises", "cache.get(%r) raised %r" % (k, e), k)
            continue
        if g is None:
            continue
        env.count("served_keys")
        try:
            canon = parse(k).encode()
        except Exception:
            env.count("unparseable_served_key")
            continue
        if canon != k:
            viol("served_under_non_canonical_text", "cache serves data %s under %r whose canonical text is %r" % (R.short(g.data), k, canon), k)
            continue
        out = env.interp(k)
        fresh = env.reference(k)
        if fresh is None:
            continue
        if not fresh["ok"]:
            viol("failing_key_served", "cache serves %s for %r whose fresh evaluation fails (%s)" % (R.short(g.data), k, fresh.get("msg")), k)
            continue
        if out is not None and out.ok:
            if out.volatile:
                viol("volatile_key_served", "cache serves %s for volatile %r" % (R.short(g.data), k), k)
                continue
            if not out.caching:
                viol("cache_disabled_key_served", "cache serves %s for %r although caching was switched off" % (R.short(g.data), k), k)
                continue
        elif fresh["volatile"]:
            viol("volatile_key_served", "cache serves %s for volatile %r" % (R.short(g.data), k), k)
            continue
        if not R.equal(g.data, fresh["value"]):
            viol(SERVED_JSON_IMAGE if (json_image_explains(fresh["value"], g.data) or env.json_tainted(k)) else "served_data_differs_from_fresh_evaluation", "cache serves %s for %r, fresh evaluation gives %s" % (
                R.short(g.data), k, R.short(fresh["value"])), k)


# ------------------------------------------------------------------------------------
# C09: which commands must a caching evaluator execute?


def simulate(env, q, cached, admits):
    """Commands a caching evaluator executes for query text q given the set ``cached`` of stored keys (updated).
    Mirrors the documented algorithm: try the cache for the whole query, otherwise evaluate the predecessor, then the
    link arguments of the last action (left to right), then the action; store every admissible result."""
    from liquer.parser import parse, LinkActionParameter, TransformQuerySegment

    executed = []

    def ev(query):
        key = query.encode()
        if key in cached:
            return
        p, r = own_predecessor(query)
        if p is not None and not p.is_empty():
            ev(p)
        if r is None:
            return
        if not r.is_filename():
            action = r.query[0]
            pre_actions = [] if p is None or p.is_empty() else list(p.segments[-1].query)
            for prm in action.parameters:
                if isinstance(prm, LinkActionParameter):
                    link = prm.link
                    if link.absolute or not pre_actions:
                        ev(link)
                    else:
                        tq = link.transform_query()
                        joined = (p + tq) if tq is not None else parse(p.encode() + "/" + link.encode())
                        ev(joined)
            executed.append(action.name)
            if action.name == "sub":
                from liquer.parser import StringActionParameter

                a0 = action.parameters[0]
                if isinstance(a0, StringActionParameter):
                    ev(parse(a0.string))
            if action.name == "subin":
                # a sub-evaluation on an injected input: always executed, never cached
                from liquer.parser import StringActionParameter

                a0 = action.parameters[0]
                if isinstance(a0, StringActionParameter):
                    executed.extend(a.name for a in parse(a0.string).segments[0].query)
        out = env.interp(key)
        if out is not None and out.ok and not out.volatile and out.caching and admits(out.attributes):
            cached.add(key)

    ev(parse(q))
    return executed
