"""lqv - runtime-monitoring harness for orest-d/liquer (see /verif/DESIGN.md)."""
