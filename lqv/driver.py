"""Driver: shards a check's workload over worker subprocesses, merges what the
monitors observed, classifies violations against known_findings.jsonl, writes
the evidence file and prints the verdict lines.

Verdicts (three-valued):
  exit 0   held on everything explored (KNOWN-FINDING lines allowed)
  exit 1   VIOLATION property=<id> replay=<path>
  exit 2   INCONCLUSIVE property=<id> reason=<...>   (monitor not reached, watchdog, ...)
"""
import argparse
import hashlib
import importlib
import json
import os
import shutil
import subprocess
import sys
import tempfile
import time

from . import boot

ALL = ["C%02d" % i for i in range(1, 21)]
MAX_VIOL_PER_SIG = 3


def digest(obj):
    return hashlib.sha1(json.dumps(obj, sort_keys=True, default=repr).encode()).hexdigest()[:16]


def load_module(prop):
    return importlib.import_module("lqv.checks." + prop.lower())


# --------------------------------------------------------------------------
# known findings


def load_findings(prop):
    path = os.path.join(boot.ROOT, "known_findings.jsonl")
    out = {}
    fixed = []
    if os.path.exists(path):
        for line in open(path):
            line = line.strip()
            if not line or line.startswith("#"):
                continue
            rec = json.loads(line)
            if rec.get("property") != prop:
                continue
            if rec.get("status") == "open":
                out[rec["sig"]] = rec
            else:
                fixed.append(rec)
    return out, fixed


# --------------------------------------------------------------------------
# running shards


def run_shards(prop, specs, jobs, shard_timeout):
    base = tempfile.mkdtemp(prefix="lqv_%s_" % prop.lower(), dir=boot.scratch_base())
    results = []
    try:
        pending = list(enumerate(specs))
        running = []
        env = dict(os.environ)
        env["PYTHONPATH"] = boot.ROOT + os.pathsep + env.get("PYTHONPATH", "")
        env.setdefault("PYTHONHASHSEED", "0")
        env[boot.GUARD] = "1"
        while pending or running:
            while pending and len(running) < jobs:
                i, spec = pending.pop(0)
                sdir = os.path.join(base, "s%03d" % i)
                os.makedirs(sdir)
                spec = dict(spec, scratch=sdir, shard_index=i)
                sp = os.path.join(sdir, "spec.json")
                op = os.path.join(sdir, "out.json")
                with open(sp, "w") as f:
                    json.dump(spec, f)
                p = subprocess.Popen(
                    [boot.PYTHON, "-m", "lqv.worker", prop, sp, op],
                    cwd=boot.ROOT, env=env, stdin=subprocess.DEVNULL,
                    stdout=subprocess.DEVNULL, stderr=subprocess.DEVNULL,
                )
                running.append((i, p, op, time.time(), sdir))
            still = []
            for i, p, op, t0, sdir in running:
                rc = p.poll()
                if rc is None:
                    if time.time() - t0 > shard_timeout:
                        p.kill()
                        p.wait()
                        results.append({"shard": i, "inconclusive": ["shard %d: watchdog after %ds" % (i, shard_timeout)]})
                    else:
                        still.append((i, p, op, t0, sdir))
                    continue
                if os.path.exists(op):
                    try:
                        r = json.load(open(op))
                    except Exception as e:  # truncated output
                        r = {"inconclusive": ["shard %d: unreadable result (%s)" % (i, e)]}
                else:
                    tail = ""
                    lp = os.path.join(sdir, "worker.log")
                    if os.path.exists(lp):
                        tail = open(lp, errors="replace").read()[-600:]
                    r = {"inconclusive": ["shard %d: worker exited %s without result %s" % (i, rc, tail)]}
                r["shard"] = i
                results.append(r)
                shutil.rmtree(sdir, ignore_errors=True)
            running = still
            if running:
                time.sleep(0.05)
    finally:
        shutil.rmtree(base, ignore_errors=True)
    results.sort(key=lambda r: r.get("shard", 0))
    return results


def merge(results):
    m = {
        "evaluations": 0, "nontrivial": set(), "nontrivial_count": 0, "violations": [],
        "counters": {}, "samples": [], "inconclusive": [], "sets": {}, "maxima": {},
    }
    for r in results:
        m["evaluations"] += int(r.get("evaluations", 0))
        m["nontrivial"].update(r.get("nontrivial", []))
        m["nontrivial_count"] += int(r.get("nontrivial_count", 0))
        for v in r.get("violations", []):
            if isinstance(v, dict):
                v.setdefault("_shard", r.get("shard"))
            m["violations"].append(v)
        for k, v in r.get("counters", {}).items():
            m["counters"][k] = m["counters"].get(k, 0) + v
        for k, v in r.get("maxima", {}).items():
            m["maxima"][k] = max(m["maxima"].get(k, v), v)
        for k, v in r.get("sets", {}).items():
            m["sets"].setdefault(k, set()).update(v)
        if len(m["samples"]) < 12:
            m["samples"].extend(r.get("samples", [])[:3])
        m["inconclusive"].extend(str(x)[:400] for x in r.get("inconclusive", []))
        if r.get("crash"):
            m["inconclusive"].append("shard %s crashed: %s" % (r.get("shard"), r["crash"][-400:]))
    return m


# --------------------------------------------------------------------------
# evidence


def write_evidence(prop, mod, tier, seed, m, wall, n_viol, known_seen, extra):
    cov = {
        "evaluations": m["evaluations"],
        "distinct_nontrivial": len(m["nontrivial"]) + m["nontrivial_count"],
        "rule": getattr(mod, "RULE", ""),
        "samples": m["samples"][:12] or ["(no sample recorded)"],
        "counters": dict(sorted(m["counters"].items())),
        "distinct_sets": {k: len(v) for k, v in sorted(m["sets"].items())},
        "maxima": m["maxima"],
        "known_findings_observed": sorted(known_seen),
        "inconclusive_reasons": m["inconclusive"][:20],
        "liquer_tree": boot.tree_identity(),
    }
    cov.update(extra or {})
    ev = {
        "property_id": prop,
        "tier": tier,
        "seed": seed,
        "level": getattr(mod, "LEVEL", "exploration"),
        "coverage": cov,
        "assumptions": list(getattr(mod, "ASSUMPTIONS", [])),
        "wall_s": round(wall, 2),
        "violations": n_viol,
    }
    # self-validation: an invalid evidence file is a harness bug
    try:
        import jsonschema

        schema = json.load(open("/root/.vp/EVIDENCE.schema.json"))
        try:
            jsonschema.validate(ev, schema)
        except jsonschema.ValidationError as e:
            m["inconclusive"].append("evidence does not validate: %s" % str(e).splitlines()[0])
    except ImportError:
        pass
    except FileNotFoundError:
        pass
    evdir = os.environ.get("LQV_EVIDENCE_DIR") or os.path.join(boot.ROOT, "evidence")
    os.makedirs(evdir, exist_ok=True)
    path = os.path.join(evdir, prop + ".json")
    tmp = path + ".tmp"
    with open(tmp, "w") as f:
        json.dump(ev, f, indent=1, sort_keys=True, default=repr)
        f.write("\n")
    os.replace(tmp, path)
    return path


# --------------------------------------------------------------------------


def write_replay(prop, tier, seed, v, specs=None):
    d = os.path.join(os.environ.get("LQV_REPLAY_DIR") or os.path.join(boot.ROOT, "replay"), prop)
    os.makedirs(d, exist_ok=True)
    rec = {"property": prop, "tier": tier, "seed": seed, "sig": v.get("sig"), "what": v.get("what"),
           "witness": v.get("witness")}
    sh = v.get("_shard")
    if specs is not None and isinstance(sh, int) and 0 <= sh < len(specs):
        # the shard that observed it: the fall-back when the witness alone does not reproduce (history-dependent defects)
        rec["shard_spec"] = {k: x for k, x in specs[sh].items() if k not in ("scratch", "shard_index")}
    path = os.path.join(d, digest(rec) + ".json")
    with open(path, "w") as f:
        json.dump(rec, f, indent=1, default=repr)
    return path


def do_replay(prop, mod, path):
    rec = json.load(open(path))
    spec = {"replay": rec["witness"], "tier": rec.get("tier", "quick"), "seed": rec.get("seed", 0)}
    results = run_shards(prop, [spec], 1, 900)
    m = merge(results)
    known, _ = load_findings(prop)
    bad = [v for v in m["violations"] if v.get("sig") not in known]
    if not bad and not m["inconclusive"] and rec.get("shard_spec"):
        # the witness alone was silent: re-run the whole shard that observed it (same seed, same order)
        timeout = getattr(mod, "SHARD_TIMEOUT", {"quick": 600, "thorough": 3600}).get(rec.get("tier", "quick"), 900)
        m2 = merge(run_shards(prop, [dict(rec["shard_spec"])], 1, timeout))
        seen = set()
        for v in m2["violations"]:
            if v.get("sig") not in known and v.get("sig") not in seen:
                seen.add(v.get("sig"))
                if v.get("sig") == rec.get("sig") or not bad:
                    bad.append(v)
                    m["violations"].append(v)
        for r in m2["inconclusive"]:
            if "crashed" in r or "watchdog" in r:
                m["inconclusive"].append(r)
    for v in m["violations"]:
        print("replayed: sig=%s %s" % (v.get("sig"), str(v.get("what"))[:1500]))
    if m["inconclusive"]:
        print("INCONCLUSIVE property=%s reason=%s" % (prop, "; ".join(m["inconclusive"])[:500]))
        return 2
    if bad:
        print("VIOLATION property=%s replay=%s" % (prop, path))
        return 1
    print("replay of %s: no unlisted violation reproduced" % path)
    return 0


def main(argv=None):
    ap = argparse.ArgumentParser(prog="check")
    ap.add_argument("property", nargs="?")
    ap.add_argument("--tier", default=os.environ.get("VERIF_TIER", "quick"), choices=["quick", "thorough"])
    ap.add_argument("--seed", type=int, default=None)
    ap.add_argument("--replay")
    ap.add_argument("--setup", action="store_true")
    ap.add_argument("--jobs", type=int, default=int(os.environ.get("LQV_JOBS", "16")))
    a = ap.parse_args(argv)

    boot.ensure_deps()
    if a.setup:
        print("lqv: dependencies ready in", boot.DEPS)
        return 0
    if not a.property:
        ap.error("property id required")
    prop = a.property.upper()
    seed = a.seed
    if seed is None:
        try:
            seed = int(os.environ.get("VERIF_SEED", "0"))
        except ValueError:
            seed = 0
    mod = load_module(prop)
    if a.replay:
        return do_replay(prop, mod, a.replay)

    t0 = time.time()
    specs = [dict(s, tier=a.tier, seed=seed) for s in mod.shards(a.tier, seed)]
    timeout = getattr(mod, "SHARD_TIMEOUT", {"quick": 600, "thorough": 3600})[a.tier]
    results = run_shards(prop, specs, max(1, a.jobs), timeout)
    m = merge(results)
    extra = {}
    if hasattr(mod, "finalize"):
        extra = mod.finalize(m, a.tier, seed) or {}
        m["inconclusive"].extend(extra.pop("inconclusive", []))

    known, _fixed = load_findings(prop)
    known_seen = {}
    unlisted = {}
    for v in m["violations"]:
        sig = v.get("sig")
        if sig in known:
            known_seen.setdefault(sig, v)
        else:
            unlisted.setdefault(sig, []).append(v)
    wall = time.time() - t0
    n_viol = sum(len(v) for v in unlisted.values())
    write_evidence(prop, mod, a.tier, seed, m, wall, n_viol, list(known_seen), extra)

    for sig in sorted(known_seen):
        print("KNOWN-FINDING: property=%s %s [sig=%s]" % (prop, known[sig].get("what", ""), sig))
    rc = 0
    if unlisted:
        for sig in sorted(unlisted, key=str):
            v = unlisted[sig][0]
            path = write_replay(prop, a.tier, seed, v, specs)
            print("VIOLATION property=%s replay=%s" % (prop, path))
            print("  sig=%s" % sig)
            print("  what=%s" % str(v.get("what"))[:1500])
        rc = 1
    elif m["inconclusive"]:
        print("INCONCLUSIVE property=%s reason=%s" % (prop, " | ".join(m["inconclusive"])[:1500]))
        rc = 2
    print("%s tier=%s seed=%d evaluations=%d distinct_nontrivial=%d known=%d unlisted=%d wall=%.1fs -> %s" % (
        prop, a.tier, seed, m["evaluations"], len(m["nontrivial"]) + m["nontrivial_count"],
        len(known_seen), len(unlisted), wall, {0: "held", 1: "VIOLATED", 2: "inconclusive"}[rc]))
    return rc


if __name__ == "__main__":
    sys.exit(main())
