"""C18 - metadata truthfully describes every result.

Monitor: field-by-field comparison of the returned metadata - and of the copy kept by the cache (or by the store for
results saved under a key) - with the reference interpreter's record and with values recomputed from the actual data.
Only the fields the statement names are compared (time stamps, log texts, progress indicators are ignored).
"""
import json
import random

PROPERTY = "C18"
LEVEL = "exploration"
RULE = ("seeded queries of the C01 vocabulary (successful and failing, links, sub-evaluations from inside commands, "
        "namespaces, attribute-carrying commands, trailing file names of every known extension) evaluated without cache, "
        "with memory / file / sql / store-backed caches cold and warm, and saved under a store key in a memory and a "
        "directory store. Evaluations = (evaluation, copy) pairs checked; non-trivial = query has >= 2 actions, a link, a "
        "file name or fails; distinct = distinct (mode, query).")
ASSUMPTIONS = ["expected values come from the reference interpreter and from type_identifier_of / data_characteristics of the actual value"]
SHARD_TIMEOUT = {"quick": 1200, "thorough": 7200}

MODES = ["none", "memory", "file", "sql", "store_mem_nested", "storekey_memory", "storekey_file"]


def shards(tier, seed):
    out = []
    reps = 2 if tier == "quick" else 8
    n = 130 if tier == "quick" else 400
    for mode in MODES:
        for r in range(reps):
            out.append({"mode": mode, "n": n if mode in ("none", "memory") else n // 2, "rep": r})
    return out


def expected_links(env, q):
    """(argument queries, evaluated link texts) of the LAST action of query text q"""
    from liquer.parser import parse, LinkActionParameter

    p = parse(q)
    seg = p.segments[-1]
    acts = list(seg.query)
    if not acts:
        return [], []
    i = len(acts) - 1
    args, evald = [], []
    for prm in acts[i].parameters:
        if isinstance(prm, LinkActionParameter):
            args.append(prm.link.encode())
            if prm.link.absolute or i == 0:
                evald.append(prm.link.encode())
            else:
                pre = p.predecessor()[0].encode() if seg.filename is None else p.predecessor()[0].predecessor()[0].encode()
                evald.append(parse(pre + "/" + prm.link.encode()).encode())
    return args, evald


def check_success(env, q, md, out, value, where, viol, registry):
    from liquer.parser import parse
    from liquer.state_types import type_identifier_of, data_characteristics
    from liquer.constants import mimetype_from_extension
    from lqv import refinterp as R

    pq = parse(q)
    canon = pq.encode()

    def bad(field, detail):
        viol("%s.%s" % (where, field), "%s: query %r: %s: %s" % (where, q, field, detail))

    if md.get("query") != canon:
        bad("query", "want canonical %r got %r" % (canon, md.get("query")))
    if md.get("status") != "ready":
        bad("status", "want 'ready' got %r" % (md.get("status"),))
    if md.get("is_error"):
        bad("is_error", "error flag set on a successful result")
    if md.get("type_identifier") != type_identifier_of(value):
        bad("type_identifier", "want %r got %r" % (type_identifier_of(value), md.get("type_identifier")))
    try:
        dc = data_characteristics(value)
        if md.get("data_characteristics") != dc:
            bad("data_characteristics", "want %r got %r" % (dc, md.get("data_characteristics")))
    except Exception:
        pass
    cmds = md.get("commands") or []
    if (cmds[-1] if cmds else None) != out.last_command:
        bad("commands", "last command want %r got %r" % (out.last_command, cmds[-1] if cmds else None))
    ext = md.get("extended_commands") or []
    if out.last_command is not None:
        if not ext:
            bad("extended_commands", "missing")
        else:
            e = ext[-1]
            if e.get("command_name") != out.last_command[0] or e.get("ns") != out.last_ns:
                bad("extended_commands", "want %r in ns %r got %r in ns %r" % (out.last_command[0], out.last_ns, e.get("command_name"), e.get("ns")))
            want_v = registry.metadata[out.last_ns][out.last_command[0]].version
            got_v = (e.get("command_metadata") or {}).get("version")
            if got_v != want_v:
                bad("command_version", "want %r got %r" % (want_v, got_v))
    # parent query
    p = pq
    if pq.segments[-1].filename is not None:
        p = pq.predecessor()[0]
    pp = p.predecessor()[0]
    want_parent = "" if pp is None or pp.is_empty() else pp.encode()
    if where == "returned" or "parent_query" in md:
        if (md.get("parent_query") or "") != want_parent and pq.segments[-1].filename is None:
            bad("parent_query", "want %r got %r" % (want_parent, md.get("parent_query")))
    # links and sub-queries of the last action
    if pq.segments[-1].filename is None:
        args, evald = expected_links(env, q)
        got_args = [x.get("query") for x in (md.get("argument_queries") or [])]
        if sorted(got_args) != sorted(args):
            bad("argument_queries", "want %r got %r" % (args, got_args))
        got_sub = [x.get("query") for x in (md.get("direct_subqueries") or [])]
        want_sub = set(evald) | set(out.sub_queries)
        if set(got_sub) != want_sub:
            bad("direct_subqueries", "want %r got %r" % (sorted(want_sub), got_sub))
    # file name
    if md.get("filename") != out.filename:
        bad("filename", "want %r got %r" % (out.filename, md.get("filename")))
    if (md.get("extension") or None) != (out.extension or None):
        bad("extension", "want %r got %r" % (out.extension, md.get("extension")))
    if pq.segments[-1].filename is not None and out.extension:
        if md.get("mimetype") != mimetype_from_extension(out.extension):
            ser = None
            try:
                from liquer.state_types import state_types_registry, get_type_qualname

                ser = state_types_registry().get(get_type_qualname(type(value))).as_bytes(value)[1]
            except Exception:
                pass
            if getattr(env, "mode", "").startswith("store_") and md.get("mimetype") == ser:
                viol("store-backed cache reports the media type of its own serialisation instead of the one implied by the file name",
                     "%s: query %r: want %r got %r" % (where, q, mimetype_from_extension(out.extension), md.get("mimetype")))
            else:
                bad("mimetype", "want %r got %r" % (mimetype_from_extension(out.extension), md.get("mimetype")))
    # attributes
    attrs = md.get("attributes") or {}
    for k, v in out.attributes.items():
        if k == "volatile":
            continue
        if attrs.get(k) != v:
            bad("attributes", "attribute %r want %r got %r (all: %r)" % (k, v, attrs.get(k), attrs))
            break
    for k in attrs:
        if k not in out.attributes and k != "volatile":
            bad("attributes", "unexpected attribute %r=%r (expected %r)" % (k, attrs[k], out.attributes))
            break
    if bool(attrs.get("volatile", False)) != bool(out.volatile):
        bad("attributes", "volatile flag want %r got %r" % (out.volatile, attrs.get("volatile")))


def check_failure(q, md, where, viol, mech=""):
    def bad(field, detail):
        viol("%s.%s%s" % (where, field, mech), "%s: failing query %r: %s: %s" % (where, q, field, detail))

    if md is None:
        bad("missing", "no metadata kept for the failed evaluation")
        return
    if md.get("status") != "error":
        bad("status", "want 'error' got %r" % (md.get("status"),))
    if not md.get("is_error"):
        bad("is_error", "error flag not set (status %r)" % (md.get("status"),))
    # the entry of kind 'error' is the message; an exception raised without text has an empty one (its traceback says more)
    msgs = [e for e in (md.get("log") or []) + (md.get("child_log") or []) if e.get("kind") == "error" and (e.get("message") or e.get("traceback"))]
    if not msgs:
        bad("error_message", "no error entry in log / child_log")


def run_shard(spec):
    import hashlib
    from liquer.parser import parse
    from liquer.commands import command_registry
    from liquer.context import Context
    from liquer.cache import set_cache, NoCache
    from liquer.store import MemoryStore, FileStore
    from lqv import evalcache as E, cachecfg, vocab
    from lqv.gen.query import QGen
    import os

    env = E.Env()
    registry = command_registry()
    scratch = spec["scratch"]
    violations = {}
    samples = []
    nontrivial = set()
    stats = {"evaluations": 0}

    def viol_factory(case):
        def viol(what, detail):
            sig = "C18|%s" % what
            lst = violations.setdefault(sig, [])
            if len(lst) < 3:
                lst.append({"sig": sig, "what": detail[:1000], "witness": case})
        return viol

    def handle(mode, q):
        case = {"mode": mode, "q": q}
        env.mode = mode
        viol = viol_factory(case)
        try:
            pq = parse(q)
            canon = pq.encode()
        except Exception:
            return
        out = env.interp(q)
        if out is None:
            return
        if len(pq.segments[-1].query) >= 2 or "~X~" in q or pq.segments[-1].filename is not None or not out.ok:
            nontrivial.add(hashlib.sha1(repr(case).encode()).hexdigest()[:12])
        failing_prefix = False
        if not out.ok:
            # does the last action itself fail, or an earlier step?
            last = len(pq.segments[-1].query) - 1
            failing_prefix = out.path[0][1] < last or pq.segments[-1].filename is not None
        mech = "|failure in an earlier step" if failing_prefix else ""
        cache = None
        store = None
        store_key = None
        if mode.startswith("storekey"):
            if mode.endswith("file"):
                d = os.path.join(scratch, "sk_%d" % stats["evaluations"])
                os.makedirs(d, exist_ok=True)
                store = FileStore(d)
            else:
                store = MemoryStore()
            store_key = "res/out.dat"
        elif mode != "none":
            cache = cachecfg.build(mode, scratch).cache
        rounds = 1 if cache is None else 2
        if cache is not None and "~X~" in q and (hash(q) & 3) == 1:
            # the link sub-queries are already in the cache when the query is evaluated for the first time: they still are
            # sub-queries of this evaluation and have to be recorded as such
            set_cache(cache)
            for lq in E.link_queries_of(q):
                try:
                    Context().evaluate(lq)
                except Exception:
                    pass
            env.count("link_targets_cached_beforehand")
        for rnd_i in range(rounds):
            where_r = "returned" if rnd_i == 0 else "returned_warm"
            set_cache(cache if cache is not None else NoCache())
            log = vocab.use_log([])
            try:
                st = Context().evaluate(q, store_key=store_key, store_to=store)
                exc = None
            except Exception as e:
                st, exc = None, e
            stats["evaluations"] += 1
            env.count("mode." + mode)
            if not out.ok:
                env.count("failing_evaluations")
                if st is None:
                    env.count("failure_reported_by_raise")
                else:
                    if not st.is_error:
                        viol("returned.not_error", "failing query %r returned a state not marked as error" % q)
                    check_failure(q, st.metadata, where_r, viol, mech)
                    # a sub-query started by the failing command was evaluated, whether it failed or not: it is recorded
                    subs = [p[1] for p in out.path if p[0] == "sub"]
                    last = len(pq.segments[-1].query) - 1
                    if subs and out.path[0] == ("action", last) and pq.segments[-1].filename is None:
                        got_sub = [x.get("query") for x in (st.metadata.get("direct_subqueries") or [])]
                        env.count("failing_sub_queries_checked")
                        if subs[0] not in got_sub:
                            viol("%s.direct_subqueries_of_a_failing_command" % where_r,
                                 "failing query %r: the sub-query %r evaluated by its last command is not recorded (recorded: %r)" % (q, subs[0], got_sub))
                if cache is not None and st is not None:
                    # which key the failure's metadata is filed under is not part of the statement: canonical or as typed
                    cm = cache.get_metadata(canon)
                    if cm is None or cm.get("status") not in ("error",):
                        alt = cache.get_metadata(q)
                        cm = alt if alt is not None else cm
                    check_failure(q, cm, "cache_copy", viol, mech)
                if store is not None and st is not None:
                    try:
                        smd = store.get_metadata(store_key)
                    except Exception:
                        smd = None
                    check_failure(q, smd, "store_copy", viol, mech)
                continue
            if st is None or st.is_error:
                continue  # success/failure disagreement is C01's subject
            value = st.get()
            check_success(env, q, st.metadata, out, value, where_r, viol, registry)
            if cache is not None and not out.volatile and out.caching:
                cm = cache.get_metadata(canon)
                # a result a serialising cache cannot write (metadata that is not JSON: a state variable holding bytes, a
                # set, ...; a value without default encoding: a dictionary holding a data frame) is legitimately not kept -
                # whatever record of it is left there (nothing, an earlier progress report) is then not "the kept copy"
                try:
                    json.dumps(st.metadata)
                    from liquer.state_types import encode_state_data

                    encode_state_data(value)
                    excusable = False
                except Exception:
                    excusable = True
                if excusable:
                    env.count("cache_copy_not_kept_unserialisable_result")
                elif cm is None:
                    viol("cache_copy.missing", "cache keeps no metadata for successful %r" % q)
                else:
                    env.count("cache_copies_checked")
                    check_success(env, q, cm, out, value, "cache_copy", viol, registry)
            if store is not None:
                try:
                    smd = store.get_metadata(store_key)
                    env.count("store_copies_checked")
                    check_success(env, q, smd, out, value, "store_copy", viol, registry)
                    if smd.get("key") != store_key:
                        viol("store_copy.key", "store copy reports key %r" % (smd.get("key"),))
                except Exception as e:
                    viol("store_copy.missing", "store keeps no metadata for %r saved under %r: %r" % (q, store_key, e))
        # a labelled extension evaluated while the query is warm must not rub off on the query's own metadata
        if cache is not None and out.ok and pq.segments[-1].filename is None and not out.volatile and out.caching:
            try:
                Context().evaluate(canon + "/lbl.html")
                st3 = Context().evaluate(q)
                env.count("relabel_checks")
                if not st3.is_error:
                    check_success(env, q, st3.metadata, out, st3.get(), "returned_after_labelled_extension", viol, registry)
                    cm = cache.get_metadata(canon)
                    try:
                        json.dumps(st3.metadata)
                        from liquer.state_types import encode_state_data

                        encode_state_data(st3.get())
                        writable = True
                    except Exception:
                        writable = False     # the cache cannot have written this result (see above)
                    if cm is not None and writable:
                        check_success(env, q, cm, out, st3.get(), "cache_copy_after_labelled_extension", viol, registry)
            except Exception:
                pass
        if len(samples) < 2 and stats["evaluations"] % 41 == 5:
            samples.append(case)

    def handle_resource(mode, q):
        """queries whose first segment is a resource: present (bytes flow into the transformation) or missing"""
        from liquer.store import set_store, MemoryStore
        from lqv import refinterp as R

        case = {"mode": mode, "q": q, "resource": True}
        env.mode = mode
        viol = viol_factory(case)
        st0 = MemoryStore()
        st0.store("res/data.txt", b"RESDATA", {"x": 1})
        st0.store("res/n.json", b"42", {})
        set_store(st0)
        env.ref.resource_lookup = lambda k: st0.data.get(k)
        env._ref_interp.pop(q, None)
        try:
            out = env.interp(q)
        finally:
            env.ref.resource_lookup = None
        if out is None:
            return
        pq = parse(q)
        canon = pq.encode()
        cache = None if mode == "none" else cachecfg.build(mode, scratch).cache
        set_cache(cache if cache is not None else NoCache())
        try:
            st = Context().evaluate(q)
        except Exception:
            st = None
        stats["evaluations"] += 1
        env.count("resource_queries")
        nontrivial.add(hashlib.sha1(repr(case).encode()).hexdigest()[:12])
        if not out.ok:
            env.count("missing_resource_queries")
            if st is not None:
                if not st.is_error:
                    viol("returned.not_error", "query %r on a missing resource returned a state not marked as error" % q)
                check_failure(q, st.metadata, "returned", viol, "|missing resource")
                if cache is not None:
                    cm = cache.get_metadata(canon)
                    if cm is None:
                        cm = cache.get_metadata(q)
                    if cm is not None:
                        check_failure(q, cm, "cache_copy", viol, "|missing resource")
            return
        if st is None or st.is_error:
            viol("returned.error_for_present_resource", "query %r on a present resource failed" % q)
            return
        md = st.metadata
        if md.get("query") != canon:
            viol("returned.query", "resource query %r: metadata query %r, canonical %r" % (q, md.get("query"), canon))
        if md.get("status") != "ready" and len(pq.segments) > 1:
            viol("returned.status", "resource query %r: status %r" % (q, md.get("status")))
        from liquer.state_types import type_identifier_of

        if not R.equal(st.get(), out.value):
            viol("returned.value", "resource query %r: value %s, expected %s" % (q, R.short(st.get()), R.short(out.value)))
        if md.get("type_identifier") != type_identifier_of(st.get()):
            viol("returned.type_identifier", "resource query %r: %r" % (q, md.get("type_identifier")))
        if len(pq.segments) > 1:
            cmds = md.get("commands") or []
            if (cmds[-1] if cmds else None) != out.last_command:
                viol("returned.commands", "resource query %r: last command %r want %r" % (q, cmds[-1] if cmds else None, out.last_command))

    RESQ = ["res/data.txt/-/ident", "res/data.txt/-/ident/cat-x", "-R/res/data.txt", "res/n.json/-/cat-q/o.txt", "-R/res/data.txt/-/cat-a",
            "res/missing.txt/-/ident", "-R/res/missing.txt", "nokey.txt/-/cat-x/ident", "-R/a/b/c.json/-/ident"]

    if "replay" in spec:
        w = spec["replay"]
        if w.get("resource"):
            handle_resource(w["mode"], w["q"])
        else:
            handle(w["mode"], w["q"])
    else:
        mode = spec["mode"]
        rnd = random.Random("%s/C18/%s/%s" % (spec["seed"], mode, spec["rep"]))
        g = QGen(rnd, allow_fail=True, allow_volatile=True, allow_mutators=True, max_len=5)
        g.avoid_none_default = True
        # fixed queries first (what the random draws below reach only now and then): non-canonical spellings whose last
        # action fails, also downstream of a volatile step and after the failing command ran a sub-query; long tails
        # after a failure; labels given inside the pipeline; namespace shadowing
        for q in ["lit-%41/cat-x~.y/boom", "lit-a%20b/needs", "one/vol/cat-%7Ex/sub-one~Iboom", "one/add-%31/add-x", "one/vol/needs",
                  "lit-%41/vol/sub-nosuchcmd", "one/boom/ident/cat-a/ident/cat-b/ident/cat-c", "lit-a/nosuchcmd/ident/ident/ident/ident/ident/ident",
                  "one/filename-w.txt/ident/y.json", "one/ns-alt/add-2", "one/ns-root-alt/add", "lit-a/attr_camel/ident", "lit-a/attr_up/num/cat-x",
                  "lit-a/cat-~X~cat-b~E/ident", "one/sub-one~Iadd~_2/ident"]:
            env.count("fixed_queries")
            handle(mode, q)
        for _ in range(spec["n"]):
            q = g.top()
            if rnd.random() < 0.04:
                # a query typed in a non-canonical spelling whose LAST action fails (also downstream of a volatile step and
                # after the failing command has run a sub-query of its own)
                q = "%s/%s" % (rnd.choice(["lit-%41/cat-x~.y", "lit-a%20b", "one/vol/cat-%7Ex", "lit-%41/vol", "one/add-%31"]),
                               rnd.choice(["boom", "needs", "sub-one~Iboom", "add-x", "nosuchcmd", "cat-~X~/one/boom~E"]))
                env.count("non_canonical_failing_last_action")
                handle(mode, q)
                continue
            if rnd.random() < 0.04:
                # a failure followed by many steps that are never executed: the message has to survive all of them
                g._numeric_prefix = False
                q = "%s/%s/%s" % (g.action(0, 0, True), rnd.choice(["boom", "nosuchcmd", "add-x", "cat-~X~/one/boom~E"]),
                                  "/".join(rnd.choice(["ident", "cat-a", "add-1", "cat-b/ident"]) for _ in range(rnd.randint(5, 8))))
                env.count("long_tail_after_failure")
            handle(mode, q)
        if not mode.startswith("storekey"):
            for q in RESQ:
                handle_resource(mode, q)
            from liquer.store import set_store, MemoryStore

            set_store(MemoryStore())
        for k, v in g.features.items():
            env.count("feature." + k, v)
    return {"evaluations": stats["evaluations"], "nontrivial": sorted(nontrivial),
            "violations": [v for lst in violations.values() for v in lst],
            "counters": dict(env.counters), "samples": samples, "inconclusive": []}


def replay(spec):
    return run_shard(spec)


def finalize(m, tier, seed):
    inc = []
    for k in ["mode." + x for x in MODES] + ["failing_evaluations", "cache_copies_checked", "store_copies_checked", "feature.filename",
                                              "feature.sub_evaluation", "feature.sub_evaluation.failing", "relabel_checks", "resource_queries", "missing_resource_queries", "feature.link.relative", "feature.namespace", "feature.cmd.attr_up"]:
        if not m["counters"].get(k):
            inc.append("coverage class %s empty" % k)
    return {"inconclusive": inc}
