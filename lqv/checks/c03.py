"""C03 - any text can be passed as an argument; encoded arguments are URL-path safe.

Monitors: icontract post-conditions on the real ``encode_token`` (round trip through
``decode_token`` + alphabet of the encoded form) and on ``StringActionParameter.encode``;
a driver-side embedding oracle (build query -> encode -> parse -> compare structure).
"""
import itertools
import random
import re

PROPERTY = "C03"
LEVEL = "exploration"
RULE = ("every Unicode scalar value as a one-character token (exhaustive), every string up to length L over the "
        "structural alphabet (exhaustive; L=3 quick, 4 thorough; thorough adds L=3 over the wider atom set), random strings of length 5-40; each goes through the "
        "encode_token contracts and is embedded at argument positions of 1-3 action queries, inside a nested link, as a "
        "segment-header parameter and in the list-of-lists form. A case is non-trivial when its encoded form differs from "
        "the text (something had to be escaped); distinct = distinct texts.")
ASSUMPTIONS = [
    "lone surrogates are not Unicode scalar values and are outside the quantifier",
    "URL-path safe = RFC 3986 pchar without the separators '/' and '-', percent signs only as well-formed %HH",
]
SHARD_TIMEOUT = {"quick": 900, "thorough": 5400}

ATOMS = ["~", "/", "-", "%", "+", " ", ":", ".", "_", "h", "H", "f", "P", "I", "X", "E", "2", "F", "1",
         "://", "http", "https://", "file://", "é", "€", "\n", "~X~", "~E", "%41", "a"]
CORE = ["~", "/", "-", "%", "+", " ", ":", ".", "_", "h", "H", "f", "P", "I", "X", "E", "2", "F", "é", "://"]

SPECIAL = ["~X~a~E", "~X~data/f.csv~E", "~X~/a/b~E", "~X~a-b/c-d~E", "~X~~E", "~X~-R/a~E", "e\u0301", "\u212b", "\u2126", "\uf900",
           "a\u0308\u0323", "\ufb01", "ERROR\n", "\n", "a\r\nb", "\t", "\x00", "\ufeffbom", "x~", "~", "~~", "a~/b", "~/", "~I", "~_", "~.",
           "%41", "%", "%%", "%zz", "100%25", "a+b", "+", " ", "  ", "-", "--", "/", "//", "a/b-c", ".", "..", "file.txt", "http://x", "https://",
           "file:///etc", "://", "-R", "-R/a", "-/a", "q-", "Q", "_", "1", "-1", "~1", "1e+2"]
PCHAR = set("ABCDEFGHIJKLMNOPQRSTUVWXYZabcdefghijklmnopqrstuvwxyz0123456789._~!$&'()*+,;=:@")
PCT = re.compile(r"%[0-9A-Fa-f]{2}")


def scalar_count():
    return 0x110000 - 0x800


def scalar(i):
    """i-th Unicode scalar value (surrogates skipped)."""
    return i if i < 0xD800 else i + 0x800


def shards(tier, seed):
    n = 16
    out = []
    total = scalar_count()
    step = (total + n - 1) // n
    for k in range(n):
        out.append({"kind": "codepoints", "lo": k * step, "hi": min(total, (k + 1) * step),
                    "embed_every": 96 if tier == "quick" else 8})
    if tier == "quick":
        plan = [("core", 3, 12)]
    else:
        plan = [("core", 4, 48), ("full", 3, 16)]
    for which, L, m in plan:
        for k in range(m):
            out.append({"kind": "alphabet", "atoms": which, "L": L, "part": k, "parts": m})
    out.append({"kind": "special"})
    m = 8 if tier == "quick" else 32
    per = 600 if tier == "quick" else 6000
    for k in range(m):
        out.append({"kind": "random", "n": per, "part": k})
    if tier == "thorough":
        out.append({"kind": "under_tests"})
    return out


# --------------------------------------------------------------------------
# contracts


def safe_alphabet_witness(text):
    rest = PCT.sub("", text)
    bad = sorted(set(c for c in rest if c not in PCHAR or c in "/-"))
    if bad:
        return bad
    return None


def install_contracts(mon):
    import liquer.parser as P

    raw_decode = P.decode_token

    def token_roundtrip(token, result):
        back = raw_decode(result)
        if back != token:
            return {"token": token, "encoded": result, "decoded": back}

    def token_alphabet(token, result):
        bad = safe_alphabet_witness(result)
        if bad is not None:
            return {"token": token, "encoded": result, "unsafe": bad}

    mon.install(P, "encode_token", [("encode_token.roundtrip", token_roundtrip),
                                    ("encode_token.url_safe", token_alphabet)])

    def sap_encode(self, result):
        bad = safe_alphabet_witness(result)
        if bad is not None:
            return {"string": self.string, "encoded": result, "unsafe": bad}
        if raw_decode(result) != self.string:
            return {"string": self.string, "encoded": result, "decoded": raw_decode(result)}

    mon.install(P.StringActionParameter, "encode", [("StringActionParameter.encode", sap_encode)])


# --------------------------------------------------------------------------
# embedding oracle


# A shape is a specification: list of actions (name, args); an argument is the text itself ("S"), a constant, or a link
# ("L", absolute, [actions]).  The expected structure is derived from the SPECIFICATION (independently of the library);
# the query is built with the library's object API.
S = object()


def shapes(full=True):
    yield "single", (None, [("f", [S])])
    yield "neighbours", (None, [("f", ["x", S, "y"]), ("g", [S])])
    if not full:
        return
    yield "three_actions", (None, [("f", [S]), ("g", ["q", S]), ("h", [S, S])])
    yield "link_relative", (None, [("f", [("L", False, [("g", [S]), ("h", ["k", S])]), S])])
    yield "link_nested", (None, [("f", [S, ("L", False, [("m", [S, ("L", True, [("g", [S])])])]), "z"])])
    yield "header_param", (("ns", 2, [S, "p"]), [("f", [S])])


def expected_struct(spec, s, absolute=False, top=True):
    header, actions = spec if top else (None, spec)

    def arg(a):
        if a is S:
            return ["s", s]
        if isinstance(a, tuple) and a[0] == "L":
            return ["l", ["Q", bool(a[1]), [["T", None, [[n, [arg(x) for x in args]] for n, args in a[2]], None]]]]
        return ["s", a]

    if top:
        h = [1, "", False, []] if header is None else [header[1], header[0], False, [arg(x) for x in header[2]]]
    else:
        h = None
    return ["Q", bool(absolute), [["T", h, [[n, [arg(x) for x in args]] for n, args in actions], None]]]


def build_query(spec, s):
    from liquer.parser import (Query, LinkActionParameter, SegmentHeader, StringActionParameter, TransformQuerySegment,
                               ActionRequest)

    header, actions = spec

    def arg(a):
        if a is S:
            return s
        if isinstance(a, tuple) and a[0] == "L":
            inner = Query(absolute=a[1])
            inner.segments.append(TransformQuerySegment(query=[ActionRequest.from_arguments(n, *[arg(x) for x in args]) for n, args in a[2]]))
            return LinkActionParameter(inner)
        return a

    if header is None:
        q = Query()
        for n, args in actions:
            q.with_action(n, *[arg(x) for x in args])
        return q
    q = Query()
    q.segments.append(TransformQuerySegment(
        header=SegmentHeader(header[0], level=header[1], parameters=[StringActionParameter(arg(x)) for x in header[2]]),
        query=[ActionRequest.from_arguments(n, *[arg(x) for x in args]) for n, args in actions]))
    return q


def build_shapes(s, full=True):
    for name, spec in shapes(full):
        yield name, build_query(spec, s)


def embed_check(s, full, viol, counters):
    import liquer.parser as P
    from lqv import qstruct

    for shape, spec in shapes(full):
        counters["embed." + shape] = counters.get("embed." + shape, 0) + 1
        want = expected_struct(spec, s)
        try:
            q = build_query(spec, s)
            text = q.encode()
        except Exception as e:  # contract refutations propagate to the caller
            from lqv.mon.contracts import ContractRefuted

            if isinstance(e, ContractRefuted):
                raise
            viol("embed.%s.encode_raises" % shape, {"text": s, "error": repr(e)})
            continue
        try:
            got = qstruct.query(P.parse(text))
        except Exception as e:
            viol("embed.%s.rejected" % shape, {"text": s, "query": text, "error": repr(e)[:200]})
            continue
        if got != want:
            viol("embed.%s.structure" % shape, {"text": s, "query": text, "want": want, "got": got})
        bad = safe_alphabet_witness(text.replace("/", "").replace("-", ""))
        if bad is not None:
            viol("embed.%s.url_safe" % shape, {"text": s, "query": text, "unsafe": bad})
    # list-of-lists form
    counters["embed.list_of_lists"] = counters.get("embed.list_of_lists", 0) + 1
    ll = [["f", s], ["g", "x", s, s]]
    enc = P.encode(ll)
    back = P.decode(enc)
    if back != ll:
        viol("embed.list_of_lists.decode", {"text": s, "encoded": enc, "decoded": back})
    try:
        pq = P.parse(enc)
        acts = [[a.name] + [qstruct.param(p) for p in a.parameters] for a in pq.segments[0].query]
        want_acts = [[c[0]] + [["s", t] for t in c[1:]] for c in ll]
        if len(pq.segments) != 1 or acts != want_acts:
            viol("embed.list_of_lists.parse", {"text": s, "encoded": enc, "parsed": acts})
    except Exception as e:
        viol("embed.list_of_lists.parse_rejected", {"text": s, "encoded": enc, "error": repr(e)[:200]})
    # ActionRequest.from_list / to_list
    counters["embed.from_list"] = counters.get("embed.from_list", 0) + 1
    try:
        ar = P.ActionRequest.from_list(["f", s, "k"])
        if [qstruct.param(p) for p in ar.parameters] != [["s", s], ["s", "k"]]:
            viol("embed.from_list.argument_reinterpreted", {"text": s, "parameters": [qstruct.param(p) for p in ar.parameters]})
    except Exception as e:
        viol("embed.from_list.raises", {"text": s, "error": repr(e)[:200]})


def gen_strings(spec):
    kind = spec["kind"]
    if kind == "codepoints":
        every = spec["embed_every"]
        for i in range(spec["lo"], spec["hi"]):
            cp = scalar(i)
            yield chr(cp), cp < 0x250 or i % every == 0, False
    elif kind == "alphabet":
        idx = 0
        for L in range(0, spec["L"] + 1):
            for combo in itertools.product(ATOMS if spec.get("atoms") == "full" else CORE, repeat=L):
                if idx % spec["parts"] == spec["part"]:
                    yield "".join(combo), True, True
                idx += 1
    elif kind == "random":
        rnd = random.Random("%s/C03/%s" % (spec["seed"], spec["part"]))
        pools = [ATOMS, [chr(c) for c in range(0x20, 0x7f)]]
        for _ in range(spec["n"]):
            n = rnd.randint(5, 40)
            parts = []
            for _j in range(n):
                r = rnd.random()
                if r < 0.45:
                    parts.append(rnd.choice(ATOMS))
                elif r < 0.8:
                    parts.append(rnd.choice(pools[1]))
                else:
                    parts.append(chr(scalar(rnd.randrange(scalar_count()))))
            yield "".join(parts), True, True
    elif kind == "special":
        # text shaped like the library's own syntax, Unicode that normalisation would change, line breaks, ...
        for t in SPECIAL:
            yield t, True, True
            yield "x" + t, True, True
            yield t + "~", True, True
    elif kind == "replay":
        yield spec["text"], True, True


def run_shard(spec):
    import hashlib
    from lqv.mon.contracts import Monitor, ContractRefuted
    import liquer.parser as P

    if spec.get("kind") == "under_tests":
        from lqv import undertests

        r = undertests.run("C03", spec["scratch"])
        if r is None:
            return {"evaluations": 0, "inconclusive": ["test-suite run with contracts did not finish"]}
        v = [{"sig": "C03|under the repository's tests|" + x["contract"],
              "what": "contract refuted while the repository's own tests ran: %r" % (x["witness"],),
              "witness": {"kind": "replay", "text": (x["witness"] or {}).get("token", (x["witness"] or {}).get("string", ""))}} for x in r["records"][:5]]
        n = r["counts"].get("encode_token.roundtrip", 0)
        return {"evaluations": n, "violations": v, "counters": {"contract_evals_under_repo_tests": n}}
    mon = Monitor("raise")
    install_contracts(mon)
    violations = {}
    counters = {}
    samples = []
    nontrivial = 0
    evaluations = 0

    def viol(kind, witness):
        lst = violations.setdefault(kind, [])
        if len(lst) < 3:
            lst.append({"sig": "C03|" + kind, "what": "%s: %r" % (kind, witness),
                        "witness": {"kind": "replay", "text": witness.get("text", witness.get("token", witness.get("string")))}})

    for s, embed, full in gen_strings(spec):
        evaluations += 1
        try:
            enc = P.encode_token(s)  # contract-checked
            dec = P.decode_token(enc)
            if dec != s:
                viol("decode_token.roundtrip", {"text": s, "encoded": enc, "decoded": dec})
            if enc != s:
                nontrivial += 1
            if embed:
                embed_check(s, full, viol, counters)
        except ContractRefuted as e:
            w = dict(e.witness or {})
            w.setdefault("text", s)
            viol("contract." + e.name, w)
        if len(samples) < 3 and evaluations % 997 == 5:
            samples.append({"text": s, "encoded": P.encode_token(s),
                            "embedded": next(iter(build_shapes(s)))[1].encode()})
    for k, v in mon.counts.items():
        counters["contract_evals." + k] = v
    out = {
        "evaluations": evaluations,
        "nontrivial_count": nontrivial,
        "violations": [v for lst in violations.values() for v in lst],
        "counters": counters,
        "samples": samples,
        "inconclusive": [],
    }
    if evaluations and not mon.counts.get("encode_token.roundtrip"):
        out["inconclusive"].append("encode_token contract never evaluated")
    return out


def replay(spec):
    w = spec["replay"]
    return run_shard(dict(spec, kind="replay", text=w.get("text", "")))


def finalize(m, tier, seed):
    extra = {"exhaustive": True,
             "exhaustive_subspaces": ["all 1112064 Unicode scalar values as one-character tokens",
                                      "all strings of length <= %d over the %d core structural atoms" % (3 if tier == "quick" else 4, len(CORE))]
             + ([] if tier == "quick" else ["all strings of length <= 3 over %d atoms" % len(ATOMS)])}
    inc = []
    for k in ("embed.single", "embed.link_nested", "embed.header_param", "embed.list_of_lists",
              "contract_evals.encode_token.roundtrip", "contract_evals.StringActionParameter.encode"):
        if not m["counters"].get(k):
            inc.append("monitor %s never reached" % k)
    extra["inconclusive"] = inc
    return extra
