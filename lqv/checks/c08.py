"""C08 - recipes materialise on demand, once, as the serialized query result.

Monitors: RecipeModel life-cycle monitor (recipe -> ready / error -> recipe after removal) over histories of
read / metadata / contains / list / remove / clean / re-read on declared keys; call-log monitor (commands of a recipe
execute exactly once on the first read and never on later reads); independent value: the reference interpreter's value
of the recipe's absolute query (relative './..' references resolved by the harness' own normalisation model and fed
through a resource lookup), serialised by the extension of the key.
"""
import random

PROPERTY = "C08"
LEVEL = "exploration"
RULE = ("seeded recipes.yaml files (plain-string and dictionary form with title/description, local RECIPES and "
        "sub-directory sections, relative './' and '../' references to other recipes, failing queries; txt / json / pickle "
        "results) placed at depth 0-2 of a memory- or directory-backed recipe store that is the global store itself or is "
        "mounted at a one- or two-component prefix; histories of 8-16 operations on the declared keys. Global cache is "
        "NoCache so that 'once' is well defined. Evaluations = operations checked; non-trivial = history materialises a "
        "recipe with a relative reference or removes and re-reads a key; distinct = distinct (configuration, recipes, history).")
ASSUMPTIONS = ["expected bytes = encode_state_data(reference-interpreter value, extension of the key) (C11 covers the encoder)",
               "re-reads of a FAILING recipe may re-evaluate it (not constrained)"]
SHARD_TIMEOUT = {"quick": 900, "thorough": 5400}

POOL_LOCAL = [
    ("n1.json", "one/add-2/n1.json", None),
    ("t1.txt", "lit-hello/cat-x/t1.txt", None),
    ("d1.json", {"query": "mk-dict-2/setkey-k-v/d1.json", "title": "Title D1", "description": "Desc D1"}, None),
    ("l1.pickle", {"query": "mk-list-2/push-a/l1.pickle", "title": "L1"}, None),
    ("f1.txt", {"query": "flt-2.5/mulf-2/cat-u/f1.txt", "description": "Only description", "filename": "f1.txt"}, None),
    ("der1.txt", "./t1.txt/-/ident/cat-z/der1.txt", "t1.txt"),
    ("der2.txt", {"query": "./n1.json/-/cat-q/der2.txt", "title": "Derived 2"}, "n1.json"),
    ("bad.txt", "one/boom/bad.txt", None),
    ("bad2.txt", "lit-a/needs/bad2.txt", None),
    # other ways to fail (no Python traceback is recorded for these): unknown command, failing link argument, conversion
    ("bad3.txt", "lit-a/nosuchcmd/bad3.txt", None),
    # a value its declared extension cannot hold: the recipe fails (no bytes in another format under that name)
    ("d.v1.json", {"query": "mk-dict-2/d.v1.json", "title": "Two dots"}, None),
    ("num.txt", "one/add-2/num.txt", None),
    ("dict.txt", {"query": "mk-dict-2/dict.txt", "title": "A dictionary as txt"}, None),
    # a recipe without any command: a copy of another entry under a new name
    ("copy.txt", "./t1.txt/-/copy.txt", "t1.txt"),
    ("bad4.txt", "lit-a/cat-~X~/one/boom~E/bad4.txt", None),
    ("bad5.txt", {"query": "lit-a/add-x/bad5.txt", "title": "Bad 5"}, None),
    ("e1.txt", "lit-/ident/e1.txt", None),
    ("dere.txt", "./e1.txt/-/cat-tail/dere.txt", "e1.txt"),
    ("derbad.txt", {"query": "./bad.txt/-/cat-q/cat-r/derbad.txt", "title": "Derived from a failing recipe"}, "bad.txt"),
]
POOL_SUB = [
    ("s1.txt", "lit-sub/cat-q/s1.txt", None),
    ("s2.txt", "../t1.txt/-/cat-w/s2.txt", "../t1.txt"),
    ("s3.json", {"query": "./s1.txt/-/cat-e/cat-~X~/one~E/s3.json", "title": "S3"}, "s1.txt"),
    ("sbad.txt", "../bad.txt/-/ident/sbad.txt", "../bad.txt"),
    # transformations that would turn "no data" into a normal-looking text if the failed dependency did not stop them
    ("sbad2.txt", "../bad.txt/-/cat-w/sbad2.txt", "../bad.txt"),
    ("scopy.txt", {"query": "../t1.txt/-/scopy.txt", "title": "Copy"}, "../t1.txt"),
]
POOL_SUB2 = [
    ("u1.txt", "lit-u/cat-v/u1.txt", None),
    ("u2.json", {"query": "one/add-5/u2.json", "title": "U2"}, None),
]


def shards(tier, seed):
    m = 16 if tier == "quick" else 48
    n = 30 if tier == "quick" else 150
    return [{"part": k, "n": n} for k in range(m)]


def norm_join(cwd, rel):
    parts = [x for x in cwd.split("/") if x]
    for c in rel.split("/"):
        if c == ".":
            continue
        if c == "..":
            if not parts:
                raise ValueError("above root")
            parts.pop()
        else:
            parts.append(c)
    return "/".join(parts)


def gen_scenario(rnd):
    depth_dir = rnd.choice(["", "sub", "sub/deep"])
    local = rnd.sample(POOL_LOCAL, rnd.randint(2, 6))
    names = set(x[0] for x in local)
    # dependencies must be declared too
    for nm, q, dep in list(local):
        if dep and dep not in names:
            for cand in POOL_LOCAL:
                if cand[0] == dep:
                    local.append(cand)
                    names.add(dep)
    subs = []
    if rnd.random() < 0.6:
        subs = rnd.sample(POOL_SUB, rnd.randint(1, 3))
        snames = set(x[0] for x in subs)
        for nm, q, dep in list(subs):
            if dep:
                if dep.startswith("../"):
                    d2 = dep[3:]
                    if d2 not in names:
                        for cand in POOL_LOCAL:
                            if cand[0] == d2:
                                local.append(cand)
                                names.add(d2)
                elif dep not in snames:
                    for cand in POOL_SUB:
                        if cand[0] == dep:
                            subs.append(cand)
                            snames.add(dep)
    sub2 = rnd.sample(POOL_SUB2, rnd.randint(1, 2)) if rnd.random() < 0.4 else []
    return {"dir": depth_dir, "local": [[a, b, c] for a, b, c in local], "sub": [[a, b, c] for a, b, c in subs],
            "sub2": [[a, b, c] for a, b, c in sub2],
            "order": rnd.choice(["RECIPES,sd,sd2", "sd,RECIPES,sd2", "sd,sd2,RECIPES", "sd2,sd,RECIPES"]),
            "subname": "sd", "backend": rnd.choice(["memory", "memory", "file"]),
            "mount": rnd.choice(["direct", "mount1", "mount2"]), "cache": rnd.choice(["none", "none", "memory"]),
            "plain_mount": rnd.random() < 0.4}


def yaml_text(scn):
    import yaml

    parts = {"RECIPES": [x[1] for x in scn["local"]]}
    if scn["sub"]:
        parts["sd"] = [x[1] for x in scn["sub"]]
    if scn.get("sub2"):
        parts["sd2"] = [x[1] for x in scn["sub2"]]
    spec = {}
    for name in scn.get("order", "RECIPES,sd,sd2").split(","):
        if name in parts:
            spec[name if name != "sd" else scn["subname"]] = parts[name]
    return yaml.safe_dump(spec, default_flow_style=False, sort_keys=False)


class Case:
    def __init__(self, scn, scratch):
        from liquer.store import MemoryStore, FileStore, MountPointStore, set_store
        from liquer.recipes import RecipeSpecStore
        from lqv import storecfg
        import os

        self.scn = scn
        self.cleanup = []
        if scn["backend"] == "file":
            self.sub = storecfg.leaf("file", scratch, self.cleanup)
        else:
            self.sub = MemoryStore()
        d = scn["dir"]
        ykey = (d + "/" if d else "") + "recipes.yaml"
        self.sub.store(ykey, yaml_text(scn).encode("utf-8"), {})
        self.rs = RecipeSpecStore(self.sub)
        self.prefix = {"direct": "", "mount1": "r", "mount2": "r/s"}[scn["mount"]]
        if scn["mount"] == "direct":
            self.store = self.rs
        else:
            # the global store of liquer is a mount-point store behind an indexer; a plain one is as legitimate
            self.store = MountPointStore() if scn.get("plain_mount") else MountPointStore().with_indexer()
            self.store.mount(self.prefix, self.rs)
        set_store(self.store)
        # declared keys (root keys) -> definition
        self.decl = {}
        base = "/".join(x for x in (self.prefix, d) if x)
        for nm, q, dep in scn["local"]:
            self.decl[(base + "/" if base else "") + nm] = {"def": q, "cwd": base, "name": nm}
        sbase = (base + "/" if base else "") + scn["subname"]
        for nm, q, dep in scn["sub"]:
            self.decl[sbase + "/" + nm] = {"def": q, "cwd": sbase, "name": nm}
        s2base = (base + "/" if base else "") + "sd2"
        for nm, q, dep in scn.get("sub2", []):
            self.decl[s2base + "/" + nm] = {"def": q, "cwd": s2base, "name": nm}
        self.state = {k: "recipe" for k in self.decl}
        self.made = set()

    def close(self):
        import shutil

        for d in self.cleanup:
            shutil.rmtree(d, ignore_errors=True)

    def query_of(self, key):
        d = self.decl[key]["def"]
        return d if isinstance(d, str) else d["query"]

    def abs_query(self, key):
        """absolute query text: './' and '../' resource references resolved against the recipe's directory (root key)"""
        q = self.query_of(key)
        if q.startswith("./") or q.startswith("../"):
            res, _, rest = q.partition("/-/")
            return norm_join(self.decl[key]["cwd"], res) + "/-/" + rest
        return q

    def dependencies(self, key):
        q = self.abs_query(key)
        if "/-/" in q and not q.startswith("-"):
            return [q.partition("/-/")[0]]
        return []


def expected(case, env, key, depth=0):
    """(bytes or None when the recipe fails, multiset of commands its own query executes)"""
    from liquer.parser import parse
    from liquer.state_types import encode_state_data
    from lqv import vocab, refinterp as R

    if depth > 6:
        return None, []
    q = case.abs_query(key)

    def lookup(k):
        if k in case.decl:
            b, _ = expected(case, env, k, depth + 1)
            return b
        return None

    ref = env.ref
    ref.resource_lookup = lookup
    saved = vocab.LOG
    log = vocab.use_log([])
    try:
        try:
            ref.executions = 0
            out = ref._run(parse(q))
        except Exception:
            out = None
    finally:
        vocab.use_log(saved)
        ref.resource_lookup = None
    if out is None or not out.ok:
        return None, sorted(n for (n, _t, _s) in log)
    ext = key.split(".")[-1] if "." in key.split("/")[-1] else None
    try:
        b = encode_state_data(out.value, extension=ext)[0]
    except Exception:
        return None, sorted(n for (n, _t, _s) in log)
    return b, sorted(n for (n, _t, _s) in log)


def expected_log(case, env, key, made, seen=None):
    """commands executed when key is read for the first time: not-yet-made dependencies first, then its own"""
    seen = seen if seen is not None else set()
    if key in made or key in seen:
        return []
    seen.add(key)
    out = []
    for dep in case.dependencies(key):
        if dep in case.decl:
            out += expected_log(case, env, dep, made, seen)
    _, own = expected(case, env, key)
    return out + own


def run_history(env, scn, hist, scratch, viol, stats):
    from liquer.context import Context
    from liquer.cache import set_cache, NoCache
    from lqv import vocab

    from liquer.cache import MemoryCache

    with_cache = scn.get("cache") == "memory"
    set_cache(MemoryCache() if with_cache else NoCache())
    stats["cache.%s" % scn.get("cache", "none")] = stats.get("cache.%s" % scn.get("cache", "none"), 0) + 1
    try:
        case = Case(scn, scratch)
    except Exception as e:
        # declaring recipes (storing the recipes file, mounting the recipe store) is part of what the property is about
        viol("recipe_store_cannot_be_set_up", "[%s %s dir=%r] storing the recipes file / mounting the recipe store raised %r" % (
            scn["backend"], scn["mount"], scn["dir"], e), {"scenario": scn, "history": []})
        return
    try:
        store = case.store
        for step, (op, key) in enumerate(hist):
            stats["evaluations"] += 1
            stats["op." + op] = stats.get("op." + op, 0) + 1
            w = {"scenario": scn, "history": hist[:step + 1]}

            def bad(kind, detail):
                viol(kind, "[%s %s dir=%r] after %r: %s" % (scn["backend"], scn["mount"], scn["dir"], hist[max(0, step - 3):step + 1], detail), w)

            if op == "read":
                exp_b, _own = expected(case, env, key)
                exp_log = sorted(expected_log(case, env, key, case.made))
                log = vocab.use_log([])
                try:
                    b = store.get_bytes(key)
                    err = None
                except Exception as e:
                    b, err = None, e
                real_log = sorted(("add" if n == "alt.add" else n) for (n, _t, _s) in log)
                if exp_b is None:
                    if b is not None:
                        bad("failing_recipe_left_data", "read(%r) of a failing recipe returned %r" % (key, b[:60]))
                    else:
                        stats["failing_reads"] = stats.get("failing_reads", 0) + 1
                    already_failed = case.state[key] == "error"
                    case.state[key] = "error"
                    # dependencies that succeeded are materialised
                    for dep in _closure(case, key):
                        if dep in case.made or dep == key:
                            continue
                        if already_failed:
                            # a re-read of a recipe that already failed may or may not evaluate it again (not
                            # constrained): its dependencies may or may not have been (re)made
                            if case.state.get(dep) not in ("error", "ready"):
                                case.state[dep] = "unknown"
                            continue
                        if expected(case, env, dep)[0] is not None:
                            case.made.add(dep)
                            case.state[dep] = "ready"
                        else:
                            case.state[dep] = "error"   # evaluated as a (failing) dependency
                else:
                    if err is not None or b is None:
                        bad("read_failed", "read(%r) failed: %r (query %r)" % (key, err, case.abs_query(key)))
                        continue
                    if b != exp_b:
                        bad("bytes_differ_from_serialized_query_result", "read(%r): want %r got %r (query %r)" % (key, exp_b[:80], b[:80], case.abs_query(key)))
                    first = key not in case.made
                    if case.state.get(key) == "unknown":
                        real_log = exp_log   # either served from the store or evaluated now: both are fine
                    if real_log != exp_log:
                        if len(real_log) > len(exp_log) or any(real_log.count(x) > exp_log.count(x) for x in set(real_log)):
                            bad("re_evaluated" if not first else "evaluated_more_than_once_on_first_read",
                                "read(%r): executed %r, expected %r" % (key, real_log, exp_log))
                        elif first and not with_cache:
                            bad("first_read_did_not_evaluate_the_recipe", "read(%r): executed %r, expected %r" % (key, real_log, exp_log))
                    if first:
                        for dep in _closure(case, key):
                            if with_cache and dep != key and dep not in case.made:
                                # served from the query cache: the dependency may or may not have been materialised
                                case.state[dep] = "unknown"
                                continue
                            case.made.add(dep)
                            case.state[dep] = "ready"
                    if first:
                        stats["materialised"] = stats.get("materialised", 0) + 1
                        if case.dependencies(key):
                            stats["nontrivial"].add(stats["hid"])
            elif op == "metadata":
                try:
                    md = store.get_metadata(key)
                except Exception as e:
                    bad("metadata_unavailable", "get_metadata(%r) raised %r (state %s)" % (key, e, case.state[key]))
                    continue
                st = case.state[key]
                if st == "unknown":
                    continue
                if md.get("status") != st:
                    bad("status", "get_metadata(%r): status want %r got %r" % (key, st, md.get("status")))
                d = case.decl[key]["def"]
                if isinstance(d, dict):
                    if "title" in d and md.get("title") != d["title"]:
                        bad("title", "get_metadata(%r): title want %r got %r (state %s)" % (key, d["title"], md.get("title"), st))
                    if "description" in d and md.get("description") != d["description"]:
                        bad("description", "get_metadata(%r): description want %r got %r (state %s)" % (key, d["description"], md.get("description"), st))
                if md.get("key") != key:
                    bad("metadata_key", "get_metadata(%r) reports key %r" % (key, md.get("key")))
                if st == "ready":
                    if not md.get("recipe_name"):
                        bad("recipe_name_not_recorded", "get_metadata(%r) after materialisation: recipe_name %r" % (key, md.get("recipe_name")))
                    ver = ((md.get("dependencies") or {}).get("recipe") or {}).get("version")
                    if not (isinstance(ver, str) and ver.startswith("md5:")):
                        bad("recipe_version_not_recorded", "get_metadata(%r): recipe version %r" % (key, ver))
                if st == "error":
                    if not md.get("is_error"):
                        bad("error_flag", "get_metadata(%r) of a failed recipe: is_error %r" % (key, md.get("is_error")))
            elif op == "contains":
                try:
                    c = store.contains(key)
                except Exception as e:
                    c = "raises %r" % (e,)
                if c is not True and c != 1:
                    bad("declared_key_not_contained", "contains(%r) -> %r (state %s)" % (key, c, case.state[key]))
            elif op == "list":
                try:
                    ks = list(store.keys())
                    parent = "/".join(key.split("/")[:-1])
                    ld = store.listdir(parent) or []
                except Exception as e:
                    bad("listing_raises", "keys()/listdir raised %r" % (e,))
                    continue
                if key not in ks:
                    bad("declared_key_not_listed", "%r not in keys() (state %s)" % (key, case.state[key]))
                if key.split("/")[-1] not in ld:
                    bad("declared_key_not_in_directory_listing", "%r not in listdir(%r)=%r" % (key, parent, ld))
            elif op == "remove":
                try:
                    store.remove(key)
                except Exception as e:
                    if case.state[key] != "recipe":
                        bad("remove_raises", "remove(%r) raised %r" % (key, e))
                    continue
                if case.state[key] != "recipe":
                    stats["removed"] = stats.get("removed", 0) + 1
                case.state[key] = "recipe"
                case.made.discard(key)
            elif op == "clean":
                # clean_recipes on the directory of the key, through the documented query
                parent = "/".join(key.split("/")[:-1])
                q = "-R-meta/%s/-/ns-meta/clean_recipes" % parent if parent else "-R-meta/-/ns-meta/clean_recipes"
                try:
                    st = Context().evaluate(q)
                    if st.is_error:
                        bad("clean_failed", "query %r failed: %s" % (q, str(st.metadata.get("message"))[:200]))
                        continue
                except Exception as e:
                    bad("clean_failed", "query %r raised %r" % (q, e))
                    continue
                for k in case.decl:
                    if "/".join(k.split("/")[:-1]) == parent:
                        case.state[k] = "recipe"
                        case.made.discard(k)
                stats["cleans"] = stats.get("cleans", 0) + 1
    finally:
        case.close()


def _closure(case, key, acc=None):
    acc = acc if acc is not None else []
    if key in acc:
        return acc
    for dep in case.dependencies(key):
        if dep in case.decl:
            _closure(case, dep, acc)
    acc.append(key)
    return acc


def gen_history(rnd, case_keys):
    hist = []
    for _ in range(rnd.randint(8, 16)):
        k = rnd.choice(case_keys)
        r = rnd.random()
        if r < 0.4:
            hist.append(["read", k])
        elif r < 0.6:
            hist.append(["metadata", k])
        elif r < 0.68:
            hist.append(["contains", k])
        elif r < 0.76:
            hist.append(["list", k])
        elif r < 0.92:
            hist.append(["remove", k])
        else:
            hist.append(["clean", k])
    # always start by looking at a not-yet-existing key
    hist.insert(0, ["metadata", rnd.choice(case_keys)])
    return hist


def run_shard(spec):
    import hashlib
    from liquer.commands import command
    from lqv import evalcache as E

    env = E.Env()
    import liquer.ext.meta as M

    command(M.clean_recipes, ns="meta", volatile=True)
    scratch = spec["scratch"]
    violations = {}
    samples = []
    stats = {"evaluations": 0, "nontrivial": set(), "hid": ""}

    def viol(what, detail, w):
        sig = "C08|%s" % what
        lst = violations.setdefault(sig, [])
        if len(lst) < 3:
            lst.append({"sig": sig, "what": detail[:1200], "witness": w})

    if "replay" in spec:
        w = spec["replay"]
        stats["hid"] = "replay"
        run_history(env, w["scenario"], w["history"], scratch, viol, stats)
    else:
        rnd = random.Random("%s/C08/%s" % (spec["seed"], spec["part"]))
        for h in range(spec["n"]):
            scn = gen_scenario(rnd)
            try:
                probe = Case(scn, scratch)
            except Exception as e:
                viol("recipe_store_cannot_be_set_up", "[%s %s dir=%r] storing the recipes file / mounting the recipe store raised %r" % (
                    scn["backend"], scn["mount"], scn["dir"], e), {"scenario": scn, "history": []})
                continue
            keys = sorted(probe.decl)
            probe.close()
            hist = gen_history(rnd, keys)
            stats["hid"] = hashlib.sha1(repr((scn, hist)).encode()).hexdigest()[:12]
            stats["cfg.%s.%s" % (scn["backend"], scn["mount"])] = stats.get("cfg.%s.%s" % (scn["backend"], scn["mount"]), 0) + 1
            stats["depth.%d" % (scn["dir"].count("/") + 1 if scn["dir"] else 0)] = stats.get("depth.%d" % (scn["dir"].count("/") + 1 if scn["dir"] else 0), 0) + 1
            removed = set()
            for op, k in hist:
                if op in ("remove", "clean"):
                    removed.add(k)
                elif op == "read" and k in removed:
                    stats["nontrivial"].add(stats["hid"])
            run_history(env, scn, hist, scratch, viol, stats)
            if not samples and h == 1:
                samples.append({"backend": scn["backend"], "mount": scn["mount"], "dir": scn["dir"], "yaml": yaml_text(scn), "history": hist[:8]})
    counters = dict(env.counters)
    for k, v in stats.items():
        if isinstance(v, int) and k != "evaluations":
            counters[k] = v
    return {"evaluations": stats["evaluations"], "nontrivial": sorted(stats["nontrivial"]),
            "violations": [v for lst in violations.values() for v in lst],
            "counters": counters, "samples": samples, "inconclusive": []}


def replay(spec):
    return run_shard(spec)


def finalize(m, tier, seed):
    inc = []
    for k in ("materialised", "removed", "cleans", "failing_reads", "cfg.memory.direct", "cfg.memory.mount1", "cfg.memory.mount2",
              "cfg.file.mount1", "depth.0", "depth.1", "depth.2", "op.read", "op.metadata", "op.list", "cache.memory", "cache.none"):
        if not m["counters"].get(k):
            inc.append("coverage class %s empty" % k)
    return {"inconclusive": inc}
