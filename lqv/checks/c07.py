"""C07 - store contract: every store is a hierarchical bytes+metadata file system.

Monitor: reference-model monitor (StoreModel) compared with the real store after EVERY operation over the WHOLE key
universe (bytes, caller's metadata fields, key/name/is_dir/size/md5, presence, directory flag, multiplicity in keys()
and in the parent's listdir), plus a raw-snapshot read-purity monitor on the leaf stores and an icontract class
invariant on MemoryStore (recording mode).
"""
import random

PROPERTY = "C07"
LEVEL = "exploration"
RULE = ("seeded random well-formed histories (10-40 operations: store, metadata update in read-modify-write and fresh "
        "style, remove, makedir, empty and recursive removedir) over a 12-key universe with nesting to depth 3, siblings, "
        "dotted names and prefix-confusable keys, for 18 configurations (memory and directory store: plain, ProxyStore, "
        "IndexerStore, overlay with empty fall-back, mount-point default store, mounted under a prefix, default global "
        "composition). After every operation all reads of all keys are compared with the model. Evaluations = operations "
        "applied; a history is non-trivial when it has >= 5 operations including a removal; distinct = distinct "
        "(configuration, history).")
ASSUMPTIONS = ["well-formed histories only (model preconditions); failing reads may raise any exception or return None"]
SHARD_TIMEOUT = {"quick": 900, "thorough": 5400}

UNIVERSE = ["a", "a/b", "a/b/c.txt", "a/b.txt", "a/d.txt", "a/bc", "e.txt", "f/g.json", "f/g", "f", "h.x/y.z", "a/b/c",
            # top-level names that sort between a directory and its content ('.', '-' and ' ' sort before '/')
            "a.csv", "f-1", "a/b c",
            # a name close to what a file system allows for one component (room for a '.json' beside it, not more)
            "a/" + "L" * 244 + ".txt",
            # names starting with a dot (hidden files on a directory back-end)
            "a/.env", ".cfg/x.txt"]


def shards(tier, seed):
    from lqv.storecfg import C07_CONFIGS

    out = []
    reps = 1 if tier == "quick" else 6
    n = 110 if tier == "quick" else 300
    for cfg in C07_CONFIGS:
        for r in range(reps):
            out.append({"cfg": cfg, "n": n if "file" not in cfg else max(10, n // 2), "rep": r})
    return out


def install_invariant(mon):
    """icontract-style invariant on MemoryStore, evaluated after every mutating method (recording mode)."""
    import liquer.store as S

    def ancestors_are_directories(self, result):
        for k in list(self.data) + list(self.directories):
            p = "/".join(k.split("/")[:-1])
            while p:
                if p not in self.directories:
                    return {"key": k, "missing_ancestor": p}
                p = "/".join(p.split("/")[:-1])

    for meth in ("store", "makedir"):
        mon.install(S.MemoryStore, meth, [("MemoryStore.%s.ancestors_are_directories" % meth, ancestors_are_directories)])


def run_shard(spec):
    from lqv import storecfg, storecheck
    from lqv.models import storemodel as SM
    from lqv.mon.contracts import Monitor

    mon = Monitor("record")
    install_invariant(mon)
    scratch = spec["scratch"]
    violations = {}
    counters = {}
    nontrivial = set()
    samples = []
    evaluations = 0

    def run_one(cfg, history):
        nonlocal evaluations
        def make_case():
            b = storecfg.build(cfg, scratch)
            return b, SM.StoreModel(pinned=b.pinned), None
        b0 = storecfg.build(cfg, scratch)
        prefix, extra_keys = b0.prefix, b0.extra_keys
        b0.close()
        uni = [prefix + k for k in UNIVERSE] + extra_keys
        v, steps, reads = storecheck.explore_case(PROPERTY, cfg, make_case, history, uni)
        evaluations += steps
        counters["ops." + cfg] = counters.get("ops." + cfg, 0) + steps
        counters["reads_compared"] = counters.get("reads_compared", 0) + reads
        for x in v:
            lst = violations.setdefault(x["sig"], [])
            if len(lst) < 2:
                x["witness"]["cfg"] = cfg
                lst.append(x)

    if "replay" in spec:
        w = spec["replay"]
        run_one(w["cfg"], [SM.op_from_json(o) for o in w["history"]])
    else:
        cfg = spec["cfg"]
        b0 = storecfg.build(cfg, scratch)
        prefix, pinned, extra_keys = b0.prefix, b0.pinned, b0.extra_keys
        b0.close()
        uni = [prefix + k for k in UNIVERSE] + extra_keys
        rnd = random.Random("%s/C07/%s/%s" % (spec["seed"], cfg, spec["rep"]))
        for h in range(spec["n"]):
            model = SM.StoreModel(pinned=pinned)
            hist = SM.gen_history(rnd, model, uni, rnd.randint(10, 40))
            kinds = [o[0] for o in hist]
            for k in kinds:
                counters["opkind." + k] = counters.get("opkind." + k, 0) + 1
            if len(hist) >= 5 and any(k in ("remove", "removedir", "removedir_recursive") for k in kinds):
                nontrivial.add(storecheck.history_digest(cfg, hist))
            run_one(cfg, hist)
            if len(samples) < 1 and h == 3:
                samples.append({"cfg": cfg, "history": [SM.op_to_json(o)[:2] for o in hist[:12]]})
    for k, v in mon.counts.items():
        counters["contract_evals." + k] = v
    for r in mon.records[:3]:
        violations.setdefault("C07|MemoryStore invariant", []).append(
            {"sig": "C07|MemoryStore invariant|" + r["contract"], "what": repr(r), "witness": {"cfg": "memory", "history": []}})
    return {"evaluations": evaluations, "nontrivial": sorted(nontrivial),
            "violations": [v for lst in violations.values() for v in lst],
            "counters": counters, "samples": samples, "inconclusive": []}


def replay(spec):
    return run_shard(spec)


def finalize(m, tier, seed):
    from lqv.storecfg import C07_CONFIGS

    inc = []
    for cfg in C07_CONFIGS:
        if not m["counters"].get("ops." + cfg):
            inc.append("configuration %s never exercised" % cfg)
    for k in ("store", "store_metadata", "store_metadata_rmw", "remove", "makedir", "removedir", "removedir_recursive"):
        if not m["counters"].get("opkind." + k):
            inc.append("operation kind %s never generated" % k)
    if not m["counters"].get("reads_compared"):
        inc.append("no read was compared")
    return {"inconclusive": inc}
