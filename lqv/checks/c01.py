"""C01 - pipeline semantics: a query means left-to-right function composition.

Monitor: reference-model monitor. Every generated query is evaluated by the real evaluator (no cache) and by the
reference interpreter (lqv.refinterp) on the same parsed query; value (type-strict, NaN- and frame-aware), final state
variables, last recorded command, file name and extension are compared; success/failure must agree.
"""
import random
import signal

PROPERTY = "C01"
LEVEL = "exploration"
RULE = ("seeded grammar-directed queries over the vocabulary V (1-6 actions; first-commands, data/state/context-taking "
        "commands, int/float/bool/str/variadic parameters, plain/escaped/empty/missing/non-canonical arguments, absolute "
        "and relative links nested to depth 3, namespaces, state-variable commands, trailing file names, headers), each "
        "evaluated plain and - for a share of them - with an injected input value and with extra positional / keyword "
        "parameters. Evaluations = real evaluations compared with the reference; a case is non-trivial when the reference "
        "succeeds and the query has >= 2 actions or a link; distinct = distinct (query, input, extra) triples.")
ASSUMPTIONS = ["commands follow the documented conventions (context last with default None, no keyword-only parameters)",
               "queries implying more than 300 command executions without a cache are discarded (counted)"]
SHARD_TIMEOUT = {"quick": 900, "thorough": 5400}

REQUIRED_FEATURES = ["arg.plain", "arg.escaped", "arg.empty", "arg.missing_defaulted", "arg.noncanonical_spelling",
                     "link.absolute", "link.relative", "link.depth2", "link.depth3", "namespace", "statevar.write",
                     "statevar.read", "param.context", "sub_evaluation", "filename", "arg.bool", "arg.variadic2",
                     "with_input", "with_extra_list", "with_extra_dict", "length.6", "cmd.let", "cmd.cat"]


def shards(tier, seed):
    m = 16 if tier == "quick" else 48
    n = 260 if tier == "quick" else 1500
    return [{"part": k, "n": n} for k in range(m)]


class Timeout(Exception):
    pass


def _alarm(signum, frame):
    raise Timeout()


def setup_liquer():
    from liquer.cache import set_cache, NoCache
    from liquer.store import set_store, MemoryStore
    import liquer.state as S
    from lqv import vocab

    vocab.register_all()
    set_cache(NoCache())
    set_store(MemoryStore())
    S._vars = {}


def real_eval(q, input_value=None, extra=None, cache=None):
    """returns ("ok", state) / ("error", state) / ("raise", exception)"""
    from liquer.context import Context

    try:
        st = Context().evaluate(q, cache=cache, input_value=input_value, extra_parameters=extra)
    except Timeout:
        raise
    except Exception as e:
        return "raise", e
    if st.is_error:
        return "error", st
    return "ok", st


def compare(out, kind, st):
    """list of (field, detail) disagreements between reference outcome and real result"""
    from lqv import refinterp as R

    d = []
    if not out.ok:
        if kind == "ok":
            d.append(("real_succeeds_where_reference_fails", "reference: %r; real value %s" % (out, R.short(st.get()))))
        return d
    if kind != "ok":
        msg = ""
        try:
            if kind == "raise":
                msg = repr(st)[:300]
            else:
                msg = str(st.metadata.get("message"))[:300]
        except Exception:
            pass
        d.append(("real_fails_where_reference_succeeds", "reference value %s; real: %s" % (R.short(out.value), msg)))
        return d
    v = st.get()
    if not R.equal(v, out.value):
        d.append(("value", "want %s (%s) got %s (%s)" % (R.short(out.value), type(out.value).__name__, R.short(v), type(v).__name__)))
    rv = dict(st.vars)
    if not R.dict_equal_unordered(rv, out.vars):
        d.append(("vars", "want %r got %r" % (out.vars, rv)))
    cmds = st.metadata.get("commands") or []
    last = cmds[-1] if cmds else None
    if last != out.last_command:
        d.append(("last_command", "want %r got %r" % (out.last_command, last)))
    if st.metadata.get("filename") != out.filename:
        d.append(("filename", "want %r got %r" % (out.filename, st.metadata.get("filename"))))
    if (st.metadata.get("extension") or None) != (out.extension or None):
        d.append(("extension", "want %r got %r" % (out.extension, st.metadata.get("extension"))))
    return d


INPUTS = [5, "inp", 2.5, [1, 2], {"k": 1}, b"by", True, 0, "", [], 0.0, False, {}]


def gen_case(rnd, g):
    from liquer.parser import parse

    q = g.top()
    case = {"q": q, "input": None, "extra": None}
    k = rnd.random()
    try:
        has_filename = parse(q).filename() is not None
    except Exception:
        has_filename = False
    if has_filename and k >= 0.15:
        # extra parameters belong to the last *action*; with a trailing file name the evaluator has no action to give
        # them to - that combination is outside the statement
        k = 1.0
    if k < 0.15:
        case["input"] = rnd.randrange(len(INPUTS))
        g.feat("with_input")
    elif k < 0.25:
        # extra parameters are Python objects, not necessarily text
        case["extra"] = [rnd.choice(["5", "x", "2.5", "t", 1, 0, 2.5, True, "f"])][: rnd.choice([1, 1, 1])] + (["zz"] if rnd.random() < 0.2 else [])
        g.feat("with_extra_list")
    elif k < 0.35:
        case["extra"] = {rnd.choice(["y", "a", "b", "s", "x", "v", "n", "nope"]): rnd.choice(["4", "w", "f", 1, 0, 2.5, True])}
        g.feat("with_extra_dict")
    if case["extra"] is not None:
        # the variadic ('*args') parameter takes text only - by design it refuses other objects - so non-text extra
        # parameters are kept for the commands whose parameters are named
        try:
            last = parse(q).segments[-1].query[-1].name
        except Exception:
            last = ""
        if last not in ("flagged", "add", "mulf", "pair", "unann", "none_default", "optint", "optfb"):
            if isinstance(case["extra"], list):
                case["extra"] = [x if isinstance(x, str) else str(x) for x in case["extra"]]
            else:
                case["extra"] = {k2: (v if isinstance(v, str) else str(v)) for k2, v in case["extra"].items()}
        elif any(not isinstance(v, str) for v in (case["extra"] if isinstance(case["extra"], list) else case["extra"].values())):
            g.feat("extra.non_text_object")
    return case


ENTITIES = {"~~": "~", "~_": "-", "~I": "/", "~/": "/", "~h": "http://", "~H": "https://", "~f": "file://", "~P": "://", "~.": " "}


def independent_decode(raw):
    """independent decoding of the as-typed text of one plain argument (documented entities, then percent-decoding;
    a literal '+' stays a '+')"""
    out = []
    i = 0
    while i < len(raw):
        two = raw[i:i + 2]
        if two in ENTITIES:
            out.append(ENTITIES[two].encode())
            i += 2
        elif raw[i] == "~" and i + 1 < len(raw) and raw[i + 1].isdigit():
            out.append(b"-" + raw[i + 1].encode())
            i += 2
        elif raw[i] == "%" and i + 2 < len(raw) + 0 and all(c in "0123456789abcdefABCDEF" for c in raw[i + 1:i + 3]) and len(raw[i + 1:i + 3]) == 2:
            out.append(bytes([int(raw[i + 1:i + 3], 16)]))
            i += 3
        else:
            out.append(raw[i].encode("utf-8"))
            i += 1
    return b"".join(out).decode("utf-8", "replace")


def argument_texts(q, query, out):
    """(as-typed slice, parsed string) of every plain argument, recursively through links"""
    from liquer.parser import StringActionParameter, LinkActionParameter, TransformQuerySegment

    for seg in query.segments:
        if not isinstance(seg, TransformQuerySegment):
            continue
        for a in seg.query:
            for prm in a.parameters:
                if isinstance(prm, StringActionParameter):
                    s = prm.position.offset
                    e = s
                    while e < len(q) and q[e] not in "-/" and not q.startswith("~E", e):
                        e += 2 if q[e] == "~" and e + 1 < len(q) else 1
                    out.append((q[s:e], prm.string))
                elif isinstance(prm, LinkActionParameter):
                    argument_texts(q, prm.link, out)


def run_case(case, ref, counters):
    """returns (disagreements, outcome, kind)"""
    from liquer.parser import parse
    from lqv import refinterp as R, vocab

    q = case["q"]
    try:
        parsed = parse(q)
    except Exception:
        counters["unparseable"] = counters.get("unparseable", 0) + 1
        return None
    inp = None if case["input"] is None else INPUTS[case["input"]]
    extra = case["extra"]
    import copy

    # the arguments the evaluator works with must be the documented decoding of what was typed
    pre = []
    if " " not in q:
        try:
            pairs = []
            argument_texts(q, parsed, pairs)
            for raw, got in pairs:
                counters["argument_decodings_checked"] = counters.get("argument_decodings_checked", 0) + 1
                want = independent_decode(raw)
                if want != got:
                    pre.append(("argument_text_decoding", "as-typed argument %r: documented decoding %r, parser delivered %r" % (raw, want, got)))
                    break
        except Exception:
            counters["argument_decoding_oracle_errors"] = counters.get("argument_decoding_oracle_errors", 0) + 1

    saved = vocab.LOG
    vocab.use_log([])
    try:
        try:
            out = ref.run(parsed, input_value=copy.deepcopy(inp), extra=copy.deepcopy(extra))
        except R.Budget:
            counters["discarded_over_budget"] = counters.get("discarded_over_budget", 0) + 1
            return None
    finally:
        vocab.use_log(saved)
    log = vocab.use_log([])
    signal.alarm(30)
    try:
        kind, st = real_eval(q, input_value=copy.deepcopy(inp), extra=copy.deepcopy(extra))
    except Timeout:
        counters["timeouts"] = counters.get("timeouts", 0) + 1
        return None
    finally:
        signal.alarm(0)
    counters["commands_executed_real"] = counters.get("commands_executed_real", 0) + len(log)
    return pre + compare(out, kind, st), out, kind


def mechanism(case, out, field):
    """refine the signature for listed mechanisms, from what the reference observed"""
    if field == "real_fails_where_reference_succeeds" and "optint" in case["q"]:
        # a typed parameter whose default is None was defaulted
        import re

        if re.search(r"(^|/|~X~/?)optint($|/|~E)", case["q"]) or re.search(r"optint($|/|~E)", case["q"]):
            return field + "|missing argument of a typed parameter whose default is None"
    return field


def run_shard(spec):
    import hashlib
    from lqv import refinterp as R, vocab
    from lqv.gen.query import QGen

    setup_liquer()
    signal.signal(signal.SIGALRM, _alarm)
    ref = R.RefInterp()
    counters = {}
    violations = {}
    nontrivial = set()
    samples = []
    evaluations = 0
    feats = {}

    def handle(case):
        nonlocal evaluations
        res = run_case(case, ref, counters)
        if res is None:
            return
        d, out, kind = res
        evaluations += 1
        counters["reference_ok" if out.ok else "reference_fail"] = counters.get("reference_ok" if out.ok else "reference_fail", 0) + 1
        if out.ok and ("/" in case["q"] or "~X~" in case["q"]):
            nontrivial.add(hashlib.sha1(repr(case).encode()).hexdigest()[:12])
        for field, detail in d:
            sig = "C01|" + mechanism(case, out, field)
            lst = violations.setdefault(sig, [])
            if len(lst) < 3:
                lst.append({"sig": sig, "what": "query %r input=%r extra=%r: %s: %s" % (
                    case["q"], None if case["input"] is None else INPUTS[case["input"]], case["extra"], field, detail),
                    "witness": case})
        if len(samples) < 2 and evaluations % 97 == 11 and out.ok:
            samples.append({"query": case["q"], "input": case["input"], "extra": case["extra"], "value": R.short(out.value, 60)})

    if "replay" in spec:
        handle(spec["replay"])
    else:
        rnd = random.Random("%s/C01/%s" % (spec["seed"], spec["part"]))
        g = QGen(rnd, allow_fail=True, allow_mutators=True)
        for _ in range(spec["n"]):
            handle(gen_case(rnd, g))
        feats = g.features
    for k, v in feats.items():
        counters["feature." + k] = v
    return {"evaluations": evaluations, "nontrivial": sorted(nontrivial),
            "violations": [v for lst in violations.values() for v in lst],
            "counters": counters, "samples": samples, "inconclusive": []}


def replay(spec):
    return run_shard(spec)


def finalize(m, tier, seed):
    inc = []
    for f in REQUIRED_FEATURES:
        if not m["counters"].get("feature." + f):
            inc.append("feature class %s empty" % f)
    ok = m["counters"].get("reference_ok", 0)
    if ok * 2 < m["evaluations"]:
        inc.append("fewer than half of the queries succeed (%d of %d)" % (ok, m["evaluations"]))
    if m["counters"].get("timeouts", 0) > m["evaluations"] // 50:
        inc.append("too many per-case timeouts: %d" % m["counters"]["timeouts"])
    return {"inconclusive": inc}
