"""C09 - cache reuse: cached prefixes are never re-executed.

Monitors: call-log monitor between evaluations + recording of what the cache accepted. The expected set of executed
commands is computed by a simulation of a caching evaluator over the set of keys the cache kind admits (admission
predicate of conditional caches evaluated on the attributes the reference interpreter derives for each prefix).
"""
import json
import random

PROPERTY = "C09"
LEVEL = "exploration"
RULE = ("for each of 17 cache kinds (built by their documented constructors/factories): seeded successful non-volatile "
        "queries of the C01 vocabulary (links, sub-evaluations, namespaces, file names) and pairs (query, extension of one "
        "of its prefixes). Per pair: cold evaluation, immediate re-evaluation, contains/get, evaluation of the extension, the query again; the "
        "call log of each evaluation must equal the simulated one. Evaluations = evaluations whose call log was compared; "
        "non-trivial = the simulation predicts fewer executions than a cache-less evaluation; distinct = distinct "
        "(kind, query, extension).")
ASSUMPTIONS = ["commands deterministic; reference interpreter classifies volatility/attributes per prefix",
               "call logs compared as multisets of command names"]
SHARD_TIMEOUT = {"quick": 1200, "thorough": 7200}


def shards(tier, seed):
    from lqv.cachecfg import ALL_KINDS, FILE_BACKED

    out = []
    reps = 1 if tier == "quick" else 6
    for kind in ALL_KINDS:
        n = 36 if tier == "quick" else 100
        if kind in FILE_BACKED or kind.startswith("sql") or kind.startswith("store"):
            n = n // 2
        for r in range(reps):
            out.append({"kind": kind, "n": n, "rep": r})
    return out


FIXED = ["lit-a/" + "/".join("cat-%s%02d" % ("x" * 150, j) for j in range(14)),
         "one/pair-~X~/mk-bigbytes-2~E-z/ident", "lit-%EF%BB%BFbom/ident", "mk-inf-2/ident", "mk-nan/ident", "lit-w/pair-q-~X~/mk-bigbytes-1~E"]


def norm(log):
    return sorted(("add" if n == "alt.add" else n) for (n, _t, _s) in log)


def run_pair(env, kind, q, ext, scratch, viol, stats, via="plain"):
    from liquer.parser import parse
    from lqv import cachecfg, evalcache as E, refinterp as R
    from lqv.checks.c04 import Recorder

    built = cachecfg.build(kind, scratch)
    rec = Recorder(built.cache)
    cached = set()
    admits = lambda attrs: cachecfg.admits(kind, attrs)
    plan = [("cold", q), ("repeat", q), ("extension", ext), ("again_after_extension", q)]
    canon = parse(q).encode()
    for phase, text in plan:
        before = set(cached)
        expected = sorted(E.simulate(env, text, cached, admits))
        ref = env.reference(text)
        if ref is None or not ref["ok"]:
            return
        got, st, log = env.evaluate(text, cache=rec, via=via)
        if got is None:
            return
        stats["evaluations"] += 1
        real = norm(log)
        if ref.get("executions", 0) > len(expected):
            stats["nontrivial"].add("%s|%s|%s|%s" % (kind, q, ext, phase))
        if real != expected:
            excess = sorted(set(x for x in real if real.count(x) > expected.count(x)))
            if excess:
                viol("%s.re_executed" % phase,
                     "%s: %s evaluation of %r (after %r): executed %r, expected at most %r; commands executed more often than "
                     "a caching evaluator needs: %r (cached keys before: %r)" % (
                         kind, phase, text, q, real, expected, excess, sorted(before)[:12]))
            else:
                # fewer executions than the simulation predicts (e.g. two keys sharing one entry) is not a re-execution;
                # the value is still compared below
                env.count("executed_fewer_than_simulated")
        for field, detail in E.compare_outcomes(ref, got, env, text):
            if field in E.JSON_IMAGE_FIELDS:
                continue    # state variables are C04's subject; the JSON image of a tuple is its listed finding
            viol(phase + ".result_" + field, "%s: %s evaluation of %r: %s" % (kind, phase, text, detail))
        if phase == "cold":
            out = env.interp(canon)
            if out is not None and out.ok and not out.volatile and out.caching and admits(out.attributes):
                stats["admitted"] += 1
                try:
                    if not rec.contains(canon):
                        viol("not_contained_after_cacheable_evaluation", "%s: after evaluating %r contains(%r) is false" % (kind, q, canon))
                    g = rec.inner.get(canon)
                    if g is None:
                        viol("nothing_served_after_cacheable_evaluation", "%s: after evaluating %r get(%r) serves nothing" % (kind, q, canon))
                    elif not R.equal(g.data, ref["value"]):
                        viol("wrong_value_served_after_evaluation", "%s: get(%r) serves %s, evaluation returned %s" % (
                            kind, canon, R.short(g.data), R.short(ref["value"])))
                except Exception as e:
                    viol("cache_raises", "%s: contains/get(%r) raised %r" % (kind, canon, e))
    stats["hits." + kind] = stats.get("hits." + kind, 0) + rec.hits


def run_shard(spec):
    from lqv import evalcache as E
    from lqv.gen.query import QGen

    env = E.Env()
    scratch = spec["scratch"]
    violations = {}
    samples = []
    stats = {"evaluations": 0, "nontrivial": set(), "admitted": 0}

    def make_viol(case):
        def viol(what, detail):
            sig = "C09|%s" % what
            lst = violations.setdefault(sig, [])
            if len(lst) < 3:
                lst.append({"sig": sig, "what": detail[:1200], "witness": case})
        return viol

    if "replay" in spec:
        w = spec["replay"]
        run_pair(env, w["kind"], w["q"], w["ext"], scratch, make_viol(w), stats, via=w.get("via", "plain"))
    else:
        kind = spec["kind"]
        rnd = random.Random("%s/C09/%s/%s" % (spec["seed"], kind, spec["rep"]))
        g = QGen(rnd, allow_fail=False, allow_volatile=False, allow_mutators=False, max_len=5)
        g.avoid_none_default = True
        done = 0
        tries = 0
        fixed_used = {}
        while done < spec["n"] and tries < spec["n"] * 6:
            tries += 1
            if ("if_contains" in kind or "if_attribute_equal" in kind) and rnd.random() < 0.7:
                g._numeric_prefix = False
                q = g.action(0, 0, True) + "/attr_up/" + g.query(0, first=False, max_len=3)
            elif "if_not_contains(ABC)" in kind and rnd.random() < 0.4:
                # the attribute is there but false: the condition admits the result
                g._numeric_prefix = False
                q = g.action(0, 0, True) + "/attr_false/" + g.query(0, first=False, max_len=3)
            elif "if_not_contains(abc)" in kind and rnd.random() < 0.6:
                g._numeric_prefix = False
                q = g.action(0, 0, True) + rnd.choice(["/attr_low/", "/attr_low/", "/attr_false/"]) + g.query(0, first=False, max_len=3)
            elif spec["rep"] == 0 and 1 <= done <= len(FIXED) and not fixed_used.get(done):
                # a few fixed queries per configuration: a text longer than any key width a back-end may assume, a long
                # binary value as a named argument, a byte-order mark first, non-finite floats
                fixed_used[done] = True
                q = FIXED[done - 1]
                env.count("fixed_queries")
            elif rnd.random() < 0.06:
                # texts a decoder may treat specially (byte-order mark first) and arguments that are long binary values
                g._numeric_prefix = False
                q = rnd.choice(["lit-%EF%BB%BFbom", "lit-%EF%BB%BF", "lit-a/cat-~X~/mk-bigbytes-1~E", "one/pair-~X~/mk-bigbytes-2~E-z",
                                "lit-x/cat-~X~/lit-" + "y" * 150 + "~E"]) + "/" + g.query(0, first=False, max_len=2)
            elif rnd.random() < 0.1:
                # results of every built-in kind (each is filed by its own state type)
                g._numeric_prefix = False
                q = "mk-%s-%d/%s" % (rnd.choice(["list", "dict", "udict", "nested", "df", "bytes", "text", "none", "float", "tuple", "pairs",
                                                  "matrix", "lod", "tlist", "inf", "nan"]), rnd.choice([1, 2, 3]), g.query(0, first=False, max_len=2))
            elif rnd.random() < 0.12:
                q = rnd.choice(["res.txt", "dir/n.json", "-R/dir/sub/b.bin"]) + "/-/" + g.query(0, first=False, max_len=3)
            else:
                q = g.query(0)
            if rnd.random() < 0.15:
                q += "/" + rnd.choice(["o.txt", "d.json", "x.pickle"])
            out = env.interp(q)
            if out is None or not out.ok or out.volatile or not out.caching:
                continue
            pf = E.prefixes_of(q)
            base = rnd.choice(pf) if pf else q
            if "." in base.split("/")[-1] and "-" not in base.split("/")[-1]:
                base = pf[1] if len(pf) > 1 else base
            ext = base + "/" + rnd.choice(E.EXTENSIONS)
            oe = env.interp(ext)
            if oe is None or not oe.ok or oe.volatile or not oe.caching:
                continue
            # a serialising cache writes metadata as JSON: results (of the query, its prefixes and link sub-queries)
            # whose state variables hold something JSON cannot write (bytes, a set, a frame) are not accepted by it
            unserialisable = False
            for kq in set(E.prefixes_of(q) + E.prefixes_of(ext) + E.link_queries_of(q) + E.link_queries_of(ext)):
                rk = env.reference(kq)
                if rk is None or not rk.get("ok"):
                    continue
                try:
                    json.dumps(rk.get("vars"))
                    if isinstance(rk.get("value"), dict):
                        json.dumps(rk.get("value"))         # e.g. a dictionary with tuple keys has no JSON form (decided
                                                            # here, not by the library's own encoder)
                except Exception:
                    unserialisable = True
                    break
            if unserialisable and not kind.startswith(("memory", "proxy(memory)", "shared_memory")):
                env.count("skipped_unserialisable_variables")
                continue
            done += 1
            via = rnd.choice(["plain", "plain", "plain", "debug", "cache_arg", "empty_extra_dict", "empty_extra_list"])
            if rnd.random() < 0.2 and not q.startswith(("-R", "res.txt", "dir/")) and not q.startswith("/"):
                # the same queries spelled as absolute paths (their keys carry the leading '/')
                q, ext = "/" + q, "/" + ext
                env.count("absolute_queries")
            case = {"kind": kind, "q": q, "ext": ext, "via": via}
            run_pair(env, kind, q, ext, scratch, make_viol(case), stats, via=via)
            if not samples and done == 3:
                samples.append(case)
    counters = dict(env.counters)
    counters["cacheable_results_admitted"] = stats["admitted"]
    for k, v in stats.items():
        if k.startswith("hits."):
            counters[k] = v
    return {"evaluations": stats["evaluations"], "nontrivial": sorted(stats["nontrivial"]),
            "violations": [v for lst in violations.values() for v in lst],
            "counters": counters, "samples": samples, "inconclusive": []}


def replay(spec):
    return run_shard(spec)


def finalize(m, tier, seed):
    from lqv.cachecfg import ALL_KINDS

    inc = []
    for k in ALL_KINDS:
        if not m["counters"].get("hits." + k):
            inc.append("cache kind %s never hit (reuse vacuous)" % k)
    if not m["counters"].get("cacheable_results_admitted"):
        inc.append("no admitted result inspected")
    return {"inconclusive": inc}
