"""C06 - error containment: a failing step never yields a normal-looking result.

Monitors: call-log monitor (canary commands to the right of the injected failure must never execute), failure-report
monitor (error state whose get() raises, or evaluate raising), and a position oracle that accepts any correct way of
naming the failure: the reported (query text, offset) must be one of the candidate pairs derived from the parsed query
- as-typed or canonical text of the whole query / of the prefix ending in the failing action / of the failing link's own
query - with the offset at the start of the failing action or failing link argument in that text.
"""
import random
import signal

PROPERTY = "C06"
LEVEL = "exploration"
RULE = ("seeded queries = successful prefix of 0-4 actions (generator of C01, non-canonical spellings included) + one "
        "injected failure {raising command, unknown command, unconvertible int/float, too few / too many arguments, failing "
        "absolute link at depth 1-3, failing relative link, a relative link that succeeded on a shorter prefix, missing resource} + 0-3 canary actions and canaries inside later "
        "link arguments; evaluated with NoCache and with MemoryCache cold and warm. Evaluations = failing evaluations "
        "observed; non-trivial = failure not in the first action or inside a link; distinct = distinct (query, cache mode).")
ASSUMPTIONS = ["failure location is taken from the reference interpreter; canaries are commands used nowhere else"]
SHARD_TIMEOUT = {"quick": 900, "thorough": 5400}

KINDS = ["raises", "unknown", "convert_int", "convert_float", "too_few", "too_many", "abs_link", "abs_link_deep",
         "rel_link", "missing_resource", "link_missing_resource", "sub_fails", "fails_beside_good_link", "two_links",
         "rel_link_repeat"]


def shards(tier, seed):
    m = 16 if tier == "quick" else 48
    n = 130 if tier == "quick" else 800
    return [{"part": k, "n": n} for k in range(m)]


def failing_action(rnd, kind, has_prefix):
    if kind == "raises":
        return rnd.choice(["boom", "boom", "boom0"])
    if kind == "unknown":
        return rnd.choice(["nosuchcmd", "nosuchcmd-1-x", "only_alt"])
    if kind == "convert_int":
        return rnd.choice(["add-x", "add-1.5", "num-abc", "add-"])
    if kind == "convert_float":
        return rnd.choice(["mulf-x", "flt-zz"])
    if kind == "too_few":
        return rnd.choice(["needs", "pair"])
    if kind == "too_many":
        return rnd.choice(["add-1-2", "ident-q", "one-1", "flagged-t-s-extra"])
    if kind == "abs_link":
        return rnd.choice(["cat-a-~X~/one/boom~E-b", "add-~X~/nosuchcmd~E", "cat-~X~/lit-a/add-x/after3~E"])
    if kind == "abs_link_deep":
        return rnd.choice(["cat-~X~/lit-a/cat-~X~/one/boom/after3~E~E", "cat-~X~/one/cat-q-~X~/lit-b/cat-~X~/needs~E~E~E"])
    if kind == "rel_link":
        return rnd.choice(["cat-~X~boom~E", "add-~X~add-x~E", "cat-p-~X~ident/nosuchcmd/after3~E"])
    if kind == "sub_fails":
        # the command itself evaluates a failing sub-query (the library's own exception type travels through it)
        return rnd.choice(["sub-one~Iboom", "sub-nosuchcmd", "sub-one~Iadd~_x~Iafter3"])
    if kind == "fails_beside_good_link":
        # the failing action also has a link argument that evaluates fine
        return rnd.choice(["add-~X~/one~E-3", "flagged-~X~/one~E-s-surplus1-surplus2", "add-~X~/lit-a~E", "needs2-~X~/one~E",
                           "mulf-~X~/lit-q/cat-r~E"])
    if kind == "two_links":
        # a failing link followed by another link argument of the same action (which stands to its right)
        return rnd.choice(["cat-~X~/one/boom~E-~X~/one/after3~E", "cat-a-~X~/nosuchcmd~E-b-~X~/lit-z/after3~E"])
    if kind == "link_missing_resource":
        return rnd.choice(["cat-~X~/-R/no/such/key.txt~E", "cat-~X~/-R/nokey.bin/-/ident~E", "cat-~X~/-R/dir/metaonly.txt/-/ident~E",
                           "cat-~X~/-R/dir/sub/-/cat-x~E"])
    raise ValueError(kind)


def gen_case(rnd, g):
    kind = rnd.choice(KINDS)
    if kind == "missing_resource":
        # absent keys; a key with metadata but no data; a directory
        res = rnd.choice(["-R/no/such/key.txt", "nokey.txt", "-R/a/nokey.json", "dir/metaonly.txt", "-R/dir/metaonly.txt", "-R/dir/sub", "dir"])
        acts = [rnd.choice(["ident", "cat-x", "after1"]) for _ in range(rnd.randint(1, 2))]
        can = ["after%d" % (1 + i) for i in range(rnd.randint(0, 2))]
        q = res + "/-/" + "/".join(acts + can)
        return {"q": q, "kind": kind, "npre": 0, "ncan": len(can), "cache": rnd.choice(["none", "memory_cold", "memory_warm"])}
    if kind == "rel_link_repeat":
        # a relative link whose text already occurred - and evaluated fine on a shorter prefix - fails on this prefix
        pre, fa = rnd.choice([("one/add-~X~ident~E/cat-x", "add-~X~ident~E"),
                              ("one/cat-~X~mulf-~X~ident~E~E/cat-x", "cat-~X~mulf-~X~ident~E~E"),
                              ("num-2/add-~X~ident~E/cat-q/ident", "cat-a-~X~ident/add-~X~ident~E~E"),
                              ("one/pair-~X~add-~X~ident~E~E-b/ident", "pair-~X~add-~X~ident~E~E-c")])
        ncan = rnd.randint(0, 3)
        can = ["after%d" % (1 + i % 2) for i in range(ncan)]
        return {"kind": kind, "npre": 1, "pre": pre, "fa": fa, "can": can, "ncan": ncan,
                "cache": rnd.choice(["none", "none", "memory_cold", "memory_warm"])}
    npre = rnd.randint(0, 4)
    if kind == "rel_link" and npre == 0:
        npre = 1
    pre = []
    if npre:
        g.max_len = npre
        # a successful prefix: regenerate until the reference accepts it (done by the caller)
        pre = None
    fa = failing_action(rnd, kind, npre > 0)
    ncan = rnd.randint(0, 3)
    can = []
    for i in range(ncan):
        c = "after%d" % (1 + i % 2)
        if rnd.random() < 0.3:
            c = "cat-~X~/one/after3~E/" + c
        can.append(c)
    return {"kind": kind, "npre": npre, "fa": fa, "can": can, "ncan": ncan,
            "cache": rnd.choice(["none", "none", "memory_cold", "memory_warm"])}


class Timeout(Exception):
    pass


def _alarm(signum, frame):
    raise Timeout()


# --------------------------------------------------------------------------
# position oracle


def action_spans(text, actions, seg_end):
    """as-typed [start, end) of every action of one segment (end = before the '/' that follows)"""
    spans = []
    for i, a in enumerate(actions):
        s = a.position.offset
        if i + 1 < len(actions):
            e = actions[i + 1].position.offset - 1
        else:
            e = seg_end
        spans.append((s, e))
    return spans


def candidates_for(text, query, path, base=0):
    """set of acceptable (query text, offset) pairs for a failure at ``path`` inside the transformation query
    ``query`` whose as-typed text is ``text`` (offsets of the parsed objects are relative to the outermost text;
    ``base`` is the offset of ``text`` within it)."""
    from liquer.parser import Query, TransformQuerySegment, LinkActionParameter

    out = set()
    seg = query.segments[-1]
    actions = list(seg.query)
    i = path[0][1]
    head = "" if seg.header is None else seg.header.encode() + "/"
    lead = "/" if query.absolute else ""
    # as-typed
    end = len(text)
    if seg.filename is not None and actions:
        # the file name follows the last action
        idx = text.rfind("/")
        end = idx if idx >= 0 else len(text)
    spans = [(s - base, e - base if j + 1 < len(actions) else end) for j, (s, e) in
             enumerate(action_spans(text, actions, end + base))]
    s_i, e_i = spans[i]
    canon_actions = [a.encode() for a in actions]
    c_off = len(lead) + len(head) + sum(len(x) + 1 for x in canon_actions[:i])
    C = query.encode()
    Cp = lead + head + "/".join(canon_actions[: i + 1])
    texts_typed = [(text, 0), (text[:e_i], 0)]
    if len(path) > 2 and path[1][0] == "sub":
        # failure inside a query the command evaluated itself: naming that query's own failing step is correct too
        from liquer.parser import parse

        try:
            sq = path[1][1]
            for (t, o) in candidates_for(sq, parse(sq), list(path[2:])):
                out.add((t, o))
        except Exception:
            pass
    if len(path) == 1 or path[1][0] != "arg" or not isinstance(actions[i].parameters[path[1][1]], LinkActionParameter):
        for t, _ in texts_typed:
            out.add((t, s_i))
        out.add((C, c_off))
        out.add((Cp, c_off))
        return out
    # failure inside link argument j of action i
    j = path[1][1]
    prm = actions[i].parameters[j]
    p_off = prm.position.offset - base
    for t, _ in texts_typed:
        out.add((t, p_off))
        out.add((t, s_i))
    cp_off = c_off + len(actions[i].name) + 1 + sum(len(x.encode()) + 1 for x in actions[i].parameters[:j])
    for t in (C, Cp):
        out.add((t, cp_off))
        out.add((t, c_off))
    # deeper: the link's own query text
    rest = path[2:]
    if rest and rest[0][0] == "resource":
        out.add((prm.link.encode(), 0))
    if rest and rest[0][0] == "action":
        link = prm.link
        lc = link.encode()
        l_start = prm.position.offset + 3  # after '~X~'
        l_typed = text[l_start - base: l_start - base + 0]
        # as-typed text of the link: between '~X~' and the matching '~E'
        enc_typed = text[p_off:]
        depth = 0
        k = 0
        stop = None
        while k < len(enc_typed):
            if enc_typed.startswith("~X~", k):
                depth += 1
                k += 3
                continue
            if enc_typed.startswith("~E", k):
                depth -= 1
                if depth == 0:
                    stop = k
                    break
                k += 2
                continue
            if enc_typed.startswith("~~", k):
                k += 2
                continue
            k += 1
        if stop is not None:
            l_typed = enc_typed[3:stop]
            if link.absolute or i == 0:
                for (t, o) in candidates_for(l_typed, link, rest, base=base + p_off + 3):
                    out.add((t, o))
                # canonical link text
                for (t, o) in candidates_for_canonical(link, rest):
                    out.add((t, o))
            else:
                # relative: the evaluated text is prefix + '/' + link
                prefix_c = lead + head + "/".join(canon_actions[:i])
                rest_link = [("action", rest[0][1] - i)] + list(rest[1:])
                if rest_link[0][1] >= 0:
                    for (t, o) in candidates_for_canonical(link, rest_link):
                        out.add((prefix_c + "/" + t, len(prefix_c) + 1 + o))
                        out.add((t, o))
                joined = prefix_c + "/" + lc
                from liquer.parser import parse

                try:
                    jq = parse(joined)
                    for (t, o) in candidates_for_canonical(jq, list(rest)):
                        out.add((t, o))
                except Exception:
                    pass
    return out


def chain_offsets(query, path):
    """offsets, in the outermost as-typed text, of every failing action / link argument along the path"""
    from liquer.parser import LinkActionParameter

    out = set()
    actions = list(query.segments[-1].query)
    prefix_len = 0
    k = 0
    while k < len(path):
        kind, idx = path[k]
        if kind != "action":
            break
        idx -= prefix_len
        if idx < 0 or idx >= len(actions):
            break
        a = actions[idx]
        out.add(a.position.offset)
        if k + 1 < len(path) and path[k + 1][0] == "arg":
            j = path[k + 1][1]
            if j < len(a.parameters):
                prm = a.parameters[j]
                out.add(prm.position.offset)
                if isinstance(prm, LinkActionParameter) and k + 2 < len(path):
                    link = prm.link
                    prefix_len = 0 if (link.absolute or (idx + prefix_len) == 0) else (idx + prefix_len)
                    actions = list(link.segments[-1].query)
                    k += 2
                    continue
        break
    return out


def candidates_for_canonical(query, path):
    """candidates computed on the canonical text of ``query`` re-parsed (positions then refer to that text)"""
    from liquer.parser import parse

    c = query.encode()
    try:
        q2 = parse(c)
    except Exception:
        return set()
    return candidates_for(c, q2, path, base=0)


# --------------------------------------------------------------------------


def setup():
    from lqv.checks import c01

    c01.setup_liquer()
    # resources that exist but can not be read as data: a directory, a key with metadata only (what a recipe that
    # failed, or was never made, looks like)
    from liquer.store import get_store

    # commands of the other namespace have been used, legally, before: they stay unknown where that namespace is not active
    from liquer.context import Context

    for legal in ("one/ns-alt/only_alt", "one/ns-alt/add-2", "ns-alt/only_alt"):
        try:
            Context().evaluate(legal)
        except Exception:
            pass
    st = get_store()
    st.store("dir/sub/b.bin", b"\x00\x01bin", {})
    st.store_metadata("dir/metaonly.txt", {"status": "recipe", "title": "never produced"})


def _parses(parse, t):
    try:
        parse(t)
        return True
    except Exception:
        return False


def run_shard(spec):
    import hashlib
    from liquer.parser import parse, QueryException
    from liquer.cache import set_cache, NoCache, MemoryCache
    from liquer.context import Context
    from lqv import refinterp as R, vocab
    from lqv.gen.query import QGen

    setup()
    signal.signal(signal.SIGALRM, _alarm)
    ref = R.RefInterp()
    counters = {}
    violations = {}
    nontrivial = set()
    samples = []
    evaluations = 0

    def viol(case, kind, what, detail):
        sig = "C06|%s" % what
        lst = violations.setdefault(sig, [])
        if len(lst) < 3:
            lst.append({"sig": sig, "what": "[%s, cache %s] query %r: %s" % (case["kind"], case["cache"], case["q"], detail),
                        "witness": case})

    def handle(case):
        nonlocal evaluations
        q = case["q"]
        try:
            parsed = parse(q)
        except Exception:
            counters["unparseable"] = counters.get("unparseable", 0) + 1
            return
        resource = case["kind"] == "missing_resource"
        fail = None
        if not resource:
            saved = vocab.LOG
            vocab.use_log([])
            try:
                try:
                    fail = ref.run(parsed)
                except R.Budget:
                    counters["discarded_over_budget"] = counters.get("discarded_over_budget", 0) + 1
                    return
                except Exception:
                    counters["reference_unsupported"] = counters.get("reference_unsupported", 0) + 1
                    return
            finally:
                vocab.use_log(saved)
            if fail.ok:
                counters["not_failing"] = counters.get("not_failing", 0) + 1
                return
        cache = NoCache() if case["cache"] == "none" else MemoryCache()
        set_cache(cache)
        rounds = 2 if case["cache"] == "memory_warm" else 1
        for rnd_i in range(rounds):
            log = vocab.use_log([])
            signal.alarm(30)
            try:
                try:
                    st = Context().evaluate(q)
                    exc = None
                except Timeout:
                    counters["timeouts"] = counters.get("timeouts", 0) + 1
                    return
                except Exception as e:
                    st, exc = None, e
            finally:
                signal.alarm(0)
            evaluations += 1
            counters["kind." + case["kind"]] = counters.get("kind." + case["kind"], 0) + 1
            counters["cache." + case["cache"]] = counters.get("cache." + case["cache"], 0) + 1
            # 1. canaries
            ran = sorted(set(n for (n, _t, _s) in log if n.startswith("after")))
            if ran:
                viol(case, "canary", "command to the right of the failing step executed", "canaries %r ran" % ran)
            counters["canary_checks"] = counters.get("canary_checks", 0) + 1
            # 2. failure reported
            rep_q, rep_off = None, None
            if exc is not None:
                counters["reported_by_raise"] = counters.get("reported_by_raise", 0) + 1
                if isinstance(exc, QueryException):
                    rep_q = exc.query
                    rep_off = None if exc.position is None else exc.position.offset
                else:
                    viol(case, "report", "evaluation raised an exception that names no query (%s)" % type(exc).__name__, repr(exc)[:200])
                    continue
            else:
                if not st.is_error:
                    try:
                        v = st.get()
                        viol(case, "value", "normal-looking value returned for a failing query", "value %s" % R.short(v))
                    except Exception:
                        viol(case, "value", "state not marked as error although get() raises", "")
                    continue
                counters["reported_by_error_state"] = counters.get("reported_by_error_state", 0) + 1
                try:
                    st.get()
                    viol(case, "value", "error state whose get() returns a value", "")
                    continue
                except QueryException as e:
                    rep_q = e.query
                    rep_off = None if e.position is None else e.position.offset
                    if e.position is not None and e.position.line == 0 and e.position.offset == 0:
                        rep_off = None
                except Exception as e:
                    viol(case, "report", "get() raised an exception that names no query (%s)" % type(e).__name__, repr(e)[:200])
                    continue
            # 3. query and position
            mech = "missing resource" if resource or case["kind"] == "link_missing_resource" else "command/link failure"
            if rep_q is None:
                viol(case, "report", "failure names no query text [%s]" % mech, "position offset %r" % rep_off)
                continue
            if rep_off is None:
                viol(case, "report", "failure carries no position [%s]" % mech, "query %r" % rep_q)
                continue
            counters["position_checks"] = counters.get("position_checks", 0) + 1
            if resource:
                from liquer.parser import Query

                res_prefix = Query(parsed.segments[:1], absolute=parsed.absolute).encode()
                typed_prefix = q.split("/-/")[0]
                ok = rep_off == 0 and rep_q in (q, parsed.encode(), res_prefix, typed_prefix)
                if not ok:
                    viol(case, "position", "reported query/offset do not locate the missing resource", "reported (%r, %r)" % (rep_q, rep_off))
                continue
            try:
                cands = candidates_for(q, parsed, fail.path)
            except Exception as e:
                counters["oracle_errors"] = counters.get("oracle_errors", 0) + 1
                continue
            if (rep_q, rep_off) not in cands:
                # known mechanism: positions are offsets in the outermost as-typed text and are never re-based when the
                # evaluator names a re-encoded sub-text (canonical prefix, nested link's own query)
                typed_offsets = set(o for (t, o) in cands if t == q or q.startswith(t)) | chain_offsets(parsed, fail.path)
                is_typed_text = rep_q == q or q.startswith(rep_q)
                m = "other"
                names_a_correct_text = any(rep_q == t for (t, o) in cands)
                if rep_off in typed_offsets and not is_typed_text and names_a_correct_text:
                    m = "offset is that of the outermost as-typed text, named query is a re-encoded prefix or nested link text"
                    # which re-encoded text is it?
                    sub = "other_text"
                    try:
                        pfx = [q[:i] for i in range(1, len(q) + 1) if i == len(q) or q[i] == "/"]
                        if any(parse(t).encode() == rep_q for t in pfx if _parses(parse, t)):
                            sub = "canonical_text_of_a_typed_prefix"
                        elif ("~X~" + rep_q + "~E") in q or ("~X~" + rep_q + "/") in q:
                            sub = "nested_link_text"
                    except Exception:
                        pass
                    counters["known_position_mechanism.%s.%s" % (case["kind"], sub)] = counters.get("known_position_mechanism.%s.%s" % (case["kind"], sub), 0) + 1
                    if sub == "other_text":
                        # neither the canonical text of a typed prefix nor a nested link's own text: not the listed mechanism
                        m = "other: a text is named that is neither the as-typed query, nor the canonical text of one of its prefixes, nor a nested link's own text"
                viol(case, "position", "reported position does not point at the failing action in the named query [%s]" % m,
                     "reported (%r, %r); failing path %r; acceptable %r" % (rep_q, rep_off, fail.path, sorted(cands)[:6]))
        if (case["npre"] > 0 or "link" in case["kind"]):
            nontrivial.add(hashlib.sha1(repr((q, case["cache"])).encode()).hexdigest()[:12])
        if len(samples) < 2 and evaluations % 53 == 7:
            samples.append({"query": q, "kind": case["kind"], "cache": case["cache"], "failing_path": None if fail is None else repr(fail.path)})

    if "replay" in spec:
        handle(spec["replay"])
    else:
        rnd = random.Random("%s/C06/%s" % (spec["seed"], spec["part"]))
        g = QGen(rnd, allow_fail=False)
        g.avoid_none_default = True  # C01's known finding (typed parameter with None default) would fail earlier
        for _ in range(spec["n"]):
            case = gen_case(rnd, g)
            if "q" not in case:
                pre = case.pop("pre", "")
                if case["npre"] and not pre:
                    for _try in range(20):
                        g.max_len = case["npre"]
                        cand = g.query(0)
                        saved = vocab.LOG
                        vocab.use_log([])
                        try:
                            try:
                                r = ref.run(parse(cand))
                            except Exception:
                                continue
                        finally:
                            vocab.use_log(saved)
                        if r.ok:
                            pre = cand
                            break
                    if not pre:
                        pre = "one"
                parts = ([pre] if pre else []) + [case["fa"]] + case["can"]
                case["q"] = "/".join(parts)
                case["npre"] = len(parse(pre).segments[0].query) if pre else 0
                for k in ("fa", "can"):
                    case.pop(k, None)
            handle(case)
    return {"evaluations": evaluations, "nontrivial": sorted(nontrivial),
            "violations": [v for lst in violations.values() for v in lst],
            "counters": counters, "samples": samples, "inconclusive": []}


def replay(spec):
    return run_shard(spec)


def finalize(m, tier, seed):
    inc = []
    for k in KINDS:
        if not m["counters"].get("kind." + k):
            inc.append("failure kind %s never observed" % k)
    for k in ("canary_checks", "position_checks", "cache.memory_warm", "cache.none"):
        if not m["counters"].get(k):
            inc.append("monitor %s never reached" % k)
    if m["counters"].get("oracle_errors", 0) > 0:
        inc.append("position oracle raised %d times" % m["counters"]["oracle_errors"])
    return {"inconclusive": inc}
