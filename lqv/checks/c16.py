"""C16 - a crash during a file-backed write never leaves a corrupt readable entry.

Monitor: the fork + file-system-operation crash injector (lqv.crash), level fault_enumeration: for every case the
operation is first run uninjected to record its trace of mutating file-system operations, then killed immediately before
every operation of that trace and - for every raw write - after 1, len//2 and len-1 bytes of it; after each kill a FRESH
cache/store object on the same directory reads the entry (in both orders data->metadata and metadata->data, each on its
own copy) and the observation is classified: nothing / complete previous value / complete new value are admissible,
anything else (truncated, empty, self-inconsistent, mixed) is a violation; a bystander entry must be unchanged.
"""
import os
import random
import shutil

PROPERTY = "C16"
LEVEL = "fault_enumeration"
RULE = ("components {FileCache, XORFileCache, FernetFileCache, StoreCache nested/flat on FileStore, FileStore} x operations "
        "{store fresh, overwrite same type, overwrite other type, metadata store, remove, (store) recursive removedir} x values "
        "of every built-in type incl. a > 64 KiB one. Per case ALL operation boundaries of the recorded trace x torn variants "
        "{1, len//2, len-1} of each write are injected (exhaustive per case). Evaluations = crashes injected; non-trivial = "
        "crash strictly inside the operation (not before its first or after its last file-system operation); distinct = "
        "distinct (case, crash point, torn bytes).")
ASSUMPTIONS = ["process death only (os._exit skips all cleanup; written bytes stay): power loss / unsynced pages are not modelled",
               "the interposer sees every mutating file-system operation of the process (cross-checked with strace in the thorough tier)"]
SHARD_TIMEOUT = {"quick": 900, "thorough": 5400}

COMPONENTS = ["file", "xor", "fernet", "store_file_nested", "store_file_flat", "filestore"]
CACHE_OPS = ["store_fresh", "overwrite_same_type", "overwrite_other_type", "store_metadata", "remove",
             # the entry consists of 'ready' metadata only (its data file is gone, e.g. after an earlier crash between the
             # two unlinks of a removal, or metadata was filed without data) and is then stored
             "store_over_ready_metadata", "store_over_ready_metadata_other_type"]
STORE_OPS = ["store_fresh", "overwrite", "store_metadata", "remove", "removedir_recursive"]
VTYPES = ["text", "bytes", "dict", "list", "int", "frame", "bigtext"]


def shards(tier, seed):
    out = []
    for comp in COMPONENTS:
        ops = STORE_OPS if comp == "filestore" else CACHE_OPS
        for op in ops:
            vts = VTYPES if tier == "thorough" else ["text", "bytes", "dict", "bigtext"]
            out.append({"comp": comp, "op": op, "vtypes": vts})
    return out


def value(vt, which):
    tag = "OLD" if which == "old" else "NEW"
    if vt == "text":
        return "%s text value é %s" % (tag, tag * 5)
    if vt == "bytes":
        return ("%s-bytes-" % tag).encode() * 7 + b"\x00\xff"
    if vt == "dict":
        return {"tag": tag, "n": [1, 2, 3], "s": tag * 10}
    if vt == "list":
        return [tag, (1, 2), {"k": tag}]
    if vt == "int":
        return 1234567 if which == "old" else 7654321
    if vt == "frame":
        import pandas as pd

        return pd.DataFrame({"a": [1, 2, 3], "t": [tag, tag, tag]})
    if vt == "bigtext":
        return (tag + " big ") * 20000
    raise ValueError(vt)


def recovery_value(vt):
    """a value of the same kind as value(vt, .) but shorter"""
    if vt in ("text", "bigtext"):
        return "R3"
    if vt == "bytes":
        return b"r3"
    if vt == "dict":
        return {"t": "R3"}
    if vt == "list":
        return ["R3"]
    if vt == "int":
        return 3
    if vt == "frame":
        import pandas as pd

        return pd.DataFrame({"a": [3]})
    return "R3"


def other_type(vt):
    return {"text": "dict", "bytes": "text", "dict": "text", "list": "text", "int": "text", "frame": "text", "bigtext": "dict"}[vt]


KEY = "entry/key-1"
BY = "by/stander"
BY2 = KEY + ".tmp"     # a sibling whose name looks like a temporary file of KEY
FERNET_KEY = b"Zm9vYmFyZm9vYmFyZm9vYmFyZm9vYmFyZm9vYmFyMTI="


def build(comp, d):
    from liquer.cache import FileCache, XORFileCache, FernetFileCache, StoreCache
    from liquer.store import FileStore
    from lqv.cachecfg import XOR_CODE

    if comp == "file":
        return FileCache(d)
    if comp == "xor":
        return XORFileCache(d, XOR_CODE)
    if comp == "fernet":
        return FernetFileCache(d, FERNET_KEY)
    if comp == "store_file_nested":
        return StoreCache(FileStore(d), "cache", flat=False)
    if comp == "store_file_flat":
        return StoreCache(FileStore(d), "cache", flat=True)
    if comp == "filestore":
        return FileStore(d)
    raise ValueError(comp)


def make_state(key, v, marker):
    from liquer.state import State

    st = State().with_data(v)
    st.query = key
    st.metadata["x_marker"] = marker
    st.metadata["status"] = "ready"
    return st


def cache_store(c, key, v, marker):
    r = c.store(make_state(key, v, marker))
    if not r:
        raise RuntimeError("store refused")


def cache_store_metadata(c, key, v, marker):
    st = make_state(key, v, marker)
    c.store_metadata(dict(st.metadata))


def prepare(comp, op, vt, d):
    """bring directory d into the prior state; returns (old value or None, new value or None, function performing the op)"""
    obj = build(comp, d)
    old = new = None
    if comp == "filestore":
        obj.store(BY, b"bystander-bytes", {"x_marker": "BY"})
        obj.store(BY2, b"bystander2-bytes", {"x_marker": "BY2"})
        if op != "store_fresh":
            old = value(vt, "old")
            obj.store(KEY, enc(old), {"x_marker": "OLD"})
        if op == "store_fresh" or op == "overwrite":
            new = value(vt, "new")
            return old, new, lambda o: o.store(KEY, enc(new), {"x_marker": "NEW"})
        if op == "store_metadata":
            return old, old, lambda o: o.store_metadata(KEY, dict(o.get_metadata(KEY), x_marker="NEW"))
        if op == "remove":
            return old, None, lambda o: o.remove(KEY)
        if op == "removedir_recursive":
            return old, None, lambda o: o.removedir("entry", recursive=True)
    else:
        cache_store(obj, BY, "bystander value", "BY")
        cache_store(obj, BY2, "bystander2 value", "BY2")
        if op != "store_fresh" and not op.startswith("store_over_ready_metadata"):
            old = value(vt if op != "overwrite_other_type" else other_type(vt), "old")
            cache_store(obj, KEY, old, "OLD")
        if op in ("store_over_ready_metadata", "store_over_ready_metadata_other_type"):
            ghost = value(vt if op == "store_over_ready_metadata" else other_type(vt), "old")
            obj.remove(KEY)
            cache_store_metadata(obj, KEY, ghost, "OLD")
            new = value(vt, "new")
            return None, new, lambda o: cache_store(o, KEY, new, "NEW")
        if op in ("store_fresh", "overwrite_same_type", "overwrite_other_type"):
            new = value(vt, "new")
            return old, new, lambda o: cache_store(o, KEY, new, "NEW")
        if op == "store_metadata":
            return old, old, lambda o: cache_store_metadata(o, KEY, old, "NEW")
        if op == "remove":
            return old, None, lambda o: o.remove(KEY)
    raise ValueError(op)


def enc(v):
    from liquer.state_types import encode_state_data

    return encode_state_data(v)[0]


def read_entry(comp, d, order):
    """observation of the entry by a FRESH object: dict(data=..., marker=..., present=bool, extra=...)"""
    from lqv import refinterp as R

    obj = build(comp, d)
    obs = {}
    if comp == "filestore":
        def rb():
            try:
                b = obj.get_bytes(KEY)
                obs["data"] = b
                obs["has_data"] = b is not None
            except Exception as e:
                obs["has_data"] = False
                obs["data_err"] = type(e).__name__

        def rm():
            try:
                md = obj.get_metadata(KEY)
                obs["marker"] = (md or {}).get("x_marker")
                fi = (md or {}).get("fileinfo") or {}
                obs["md5"] = fi.get("md5")
                obs["size"] = fi.get("size")
                obs["has_meta"] = md is not None
                obs["status"] = (md or {}).get("status")
            except Exception as e:
                obs["has_meta"] = False
                obs["meta_err"] = type(e).__name__

        for f in ((rb, rm) if order == "data_first" else (rm, rb)):
            f()
        try:
            obs["by"] = obj.get_bytes(BY)
            obs["by_marker"] = obj.get_metadata(BY).get("x_marker")
            obs["listing"] = sorted(obj.keys())
        except Exception as e:
            obs["by"] = "ERR:" + type(e).__name__
        try:
            obs["by2"] = obj.get_bytes(BY2)
            obs["by2_marker"] = obj.get_metadata(BY2).get("x_marker")
        except Exception as e:
            obs["by2"] = "ERR:" + type(e).__name__
    else:
        def rg():
            try:
                g = obj.get(KEY)
                obs["has_data"] = g is not None
                if g is not None:
                    obs["data"] = g.data
                    obs["marker"] = g.metadata.get("x_marker")
                    obs["query"] = g.metadata.get("query")
            except Exception as e:
                obs["has_data"] = False
                obs["data_err"] = type(e).__name__

        def rm():
            try:
                md = obj.get_metadata(KEY)
                obs["has_meta"] = md is not None
                obs["meta_marker"] = (md or {}).get("x_marker")
            except Exception as e:
                obs["has_meta"] = False
                obs["meta_err"] = type(e).__name__

        for f in ((rg, rm) if order == "data_first" else (rm, rg)):
            f()
        try:
            g = obj.get(BY)
            obs["by"] = None if g is None else g.data
            obs["by_marker"] = None if g is None else g.metadata.get("x_marker")
            g2 = obj.get(BY2)
            obs["by2"] = None if g2 is None else g2.data
            obs["by2_marker"] = None if g2 is None else g2.metadata.get("x_marker")
            obs["listing"] = sorted(k for k in obj.keys() if k is not None)
        except Exception as e:
            obs["by"] = "ERR:" + type(e).__name__
    return obs


def classify(comp, obs, old, new, op):
    """returns None when admissible, else a violation kind"""
    import hashlib
    from lqv import refinterp as R

    if comp == "filestore":
        by_ok = obs.get("by") == b"bystander-bytes" and obs.get("by_marker") == "BY"
    else:
        by_ok = obs.get("by") == "bystander value" and obs.get("by_marker") == "BY"
    if comp == "filestore" and op == "removedir_recursive":
        allowed = {"entry", KEY, BY2, "by", BY}   # BY2 lives inside the removed directory: it is part of the entry
    elif comp == "filestore":
        by_ok = by_ok and obs.get("by2") == b"bystander2-bytes" and obs.get("by2_marker") == "BY2"
        allowed = {"entry", KEY, BY2, "by", BY}
    else:
        by_ok = by_ok and obs.get("by2") == "bystander2 value" and obs.get("by2_marker") == "BY2"
        allowed = {KEY, BY, BY2}
    if not by_ok:
        return "bystander entry changed"
    extra = [k for k in (obs.get("listing") or []) if k not in allowed]
    if extra:
        return "phantom entry listed after the crash"
    if not obs.get("has_data"):
        return None  # nothing: cache miss / key not found
    data = obs.get("data")
    oldv = enc(old) if (comp == "filestore" and old is not None) else old
    newv = enc(new) if (comp == "filestore" and new is not None) else new
    is_old = old is not None and R.equal(data, oldv)
    is_new = new is not None and R.equal(data, newv)
    if not is_old and not is_new:
        if data in ("", b"", None) or (isinstance(data, (str, bytes)) and len(data) == 0):
            return "empty value presented as valid"
        for ref in (oldv, newv):
            if isinstance(ref, (str, bytes)) and isinstance(data, type(ref)) and ref.startswith(data):
                return "truncated value presented as valid"
        return "corrupt value presented as valid"
    marker = obs.get("marker")
    if comp == "filestore":
        if obs.get("md5") is not None and isinstance(data, bytes) and obs["md5"] != hashlib.md5(data).hexdigest():
            return "complete bytes with metadata of the other version (checksum disagrees)"
        if obs.get("size") is not None and isinstance(data, bytes) and obs["size"] != len(data):
            return "complete bytes with metadata of the other version (size disagrees)"
        if op in ("store_fresh", "overwrite") and marker is not None and old is not None and new is not None and not (is_old and is_new):
            if (is_new and marker == "OLD") or (is_old and marker == "NEW"):
                return "complete bytes with metadata of the other version (caller's fields)"
        return None
    if op == "store_metadata":
        return None  # same data, old or new metadata: both are complete entries
    if old is not None and new is not None and not (is_old and is_new):
        if (is_new and marker == "OLD") or (is_old and marker == "NEW"):
            return "complete value with metadata of the other version"
    if old is None and is_new and marker == "OLD":
        return "complete value with metadata of the other version"
    return None


def run_case(comp, op, vt, scratch, out, only=None):
    from lqv import crash

    base = os.path.join(scratch, "c16_%s_%s_%s" % (comp, op, vt))
    shutil.rmtree(base, ignore_errors=True)
    tmpl = os.path.join(base, "template")
    os.makedirs(tmpl)
    try:
        old, new, perform = prepare(comp, op, vt, tmpl)
    except Exception as e:
        out["counters"]["case_setup_failed"] = out["counters"].get("case_setup_failed", 0) + 1
        shutil.rmtree(base, ignore_errors=True)
        return
    work = os.path.join(base, "work")

    def fresh_copy():
        shutil.rmtree(work, ignore_errors=True)
        shutil.copytree(tmpl, work)

    fresh_copy()
    status, trace = crash.run_in_child(work, lambda: perform(build(comp, work)), record=True)
    if status != "completed" or trace is None:
        out["inconclusive"].append("uninjected run of %s/%s/%s did not complete (%s)" % (comp, op, vt, status))
        shutil.rmtree(base, ignore_errors=True)
        return
    L = len(trace)
    out["counters"]["traces"] = out["counters"].get("traces", 0) + 1
    out["maxima"]["trace_length"] = max(out["maxima"].get("trace_length", 0), L)
    for kind in set(t[0] for t in trace):
        out["counters"]["opkind." + kind] = out["counters"].get("opkind." + kind, 0) + sum(1 for t in trace if t[0] == kind)
    # the completed run must read as the complete new state
    for order in ("data_first", "meta_first"):
        k = classify(comp, read_entry(comp, work, order), old, new, op)
        if k is not None:
            viol(out, comp, op, vt, "after the uninjected operation: " + k, {"comp": comp, "op": op, "vt": vt, "n": 0, "torn": 0})
    points = []
    for n in range(1, L + 1):
        points.append((n, 0))
        if trace[n - 1][0] == "write" and trace[n - 1][2] and trace[n - 1][2] > 1:
            ln = trace[n - 1][2]
            for k in sorted(set([1, ln // 2, ln - 1])):
                if 0 < k < ln:
                    points.append((n, k))
    # two ways to die at each point: killed on the spot (nothing of the code under test runs any more), or by an exception
    # raised at the operation (an interrupt, a full disk) that unwinds through its finally / except / with blocks
    points = [(n, k, death) for (n, k) in points for death in ("exit", "raise")]
    if only is not None:
        only = tuple(only) + (("exit",) if len(tuple(only)) == 2 else ())
        points = [p for p in points if p == tuple(only)]
    if len(out["samples"]) < 2:
        out["samples"].append({"case": "%s/%s/%s" % (comp, op, vt), "trace": [list(t) for t in trace[:12]], "crash_points": len(points)})
    for (n, k, death) in points:
        fresh_copy()
        status, _ = crash.run_in_child(work, lambda: perform(build(comp, work)), target=n, torn=k, mode=death)
        out["counters"]["death." + death] = out["counters"].get("death." + death, 0) + 1
        if status != "crashed":
            out["counters"]["not_crashed"] = out["counters"].get("not_crashed", 0) + 1
            continue
        out["evaluations"] += 1
        if 1 < n or k:
            out["nontrivial"].add("%s/%s/%s/%d/%d" % (comp, op, vt, n, k))
        for order in ("data_first", "meta_first"):
            probe = os.path.join(base, "probe")
            shutil.rmtree(probe, ignore_errors=True)
            shutil.copytree(work, probe)
            obs = read_entry(comp, probe, order)
            kind = classify(comp, obs, old, new, op)
            cls = "nothing" if not obs.get("has_data") else "value"
            out["counters"]["observed." + cls] = out["counters"].get("observed." + cls, 0) + 1
            if kind is not None:
                at = trace[n - 1]
                viol(out, comp, op, vt, kind, {"comp": comp, "op": op, "vt": vt, "n": n, "torn": k, "death": death},
                     "crash before op %d/%d %r%s, read order %s: observed data %r marker %r" % (
                         n, L, at, " after %d bytes" % k if k else "", order, short(obs.get("data")), obs.get("marker")))
        # a restarted evaluation files 'ready' metadata for the key (the last progress report of evaluate_action does that
        # before the value is stored): whatever data the crash left must not become a valid entry through it
        # (filing metadata that names another type than the data already there is a caller error: same-type cases only)
        if comp != "filestore" and new is not None and op != "store_metadata" and not op.endswith("other_type"):
            probe = os.path.join(base, "probe2")
            shutil.rmtree(probe, ignore_errors=True)
            shutil.copytree(work, probe)
            try:
                cache_store_metadata(build(comp, probe), KEY, new, "NEW")
                out["counters"]["ready_metadata_after_restart"] = out["counters"].get("ready_metadata_after_restart", 0) + 1
                obs2 = read_entry(comp, probe, "data_first")
                kind2 = classify(comp, dict(obs2, marker=None), old, new, op)
                if kind2 is not None and "metadata of the other version" not in kind2:
                    viol(out, comp, op, vt, "after 'ready' metadata was filed following the restart: " + kind2,
                         {"comp": comp, "op": op, "vt": vt, "n": n, "torn": k, "death": death},
                         "crash before op %d/%d %r%s: observed data %r" % (n, L, trace[n - 1], " after %d bytes" % k if k else "", short(obs2.get("data"))))
            except Exception:
                pass
            shutil.rmtree(probe, ignore_errors=True)
        # recovery: after the restart the entry is written again (a shorter value of the same kind) without any fault;
        # whatever the crash left behind (temporary files, partial files) must not leak into it
        if (n + k) % 2 == 0 or L <= 6:
            out["counters"]["recovery_checks"] = out["counters"].get("recovery_checks", 0) + 1
            v3 = recovery_value(vt)
            try:
                obj = build(comp, work)
                if comp == "filestore":
                    obj.store(KEY, enc(v3), {"x_marker": "NEW"})
                else:
                    cache_store(obj, KEY, v3, "NEW")
                robs = read_entry(comp, work, "data_first")
                rk = classify(comp, robs, None, v3, "removedir_recursive" if op == "removedir_recursive" else "store_fresh")
                if rk is None and not robs.get("has_data"):
                    rk = "entry written after the restart is not readable"
            except Exception as e:
                rk = "writing the entry again after the restart raises %s" % type(e).__name__
            if rk is not None:
                viol(out, comp, op, vt, "after recovery: " + rk, {"comp": comp, "op": op, "vt": vt, "n": n, "torn": k, "death": death},
                     "crash before op %d/%d %r%s, then a complete store of a shorter value" % (n, L, trace[n - 1], " after %d bytes" % k if k else ""))
    shutil.rmtree(base, ignore_errors=True)


def short(x):
    r = repr(x)
    return r if len(r) < 80 else r[:77] + "..."


def vclass(vt):
    return "text-like value" if vt in ("text", "bytes", "bigtext", "int") else "structured value"


def viol(out, comp, op, vt, kind, witness, detail=""):
    sig = "C16|%s|%s|%s" % (comp, op, kind)
    lst = out["violations"].setdefault(sig, [])
    if len(lst) < 2:
        lst.append({"sig": sig, "what": "%s %s (%s): %s %s" % (comp, op, vt, kind, detail), "witness": witness})


def run_shard(spec):
    out = {"evaluations": 0, "nontrivial": set(), "violations": {}, "counters": {}, "samples": [], "inconclusive": [], "maxima": {}}
    scratch = spec["scratch"]
    if "replay" in spec:
        w = spec["replay"]
        run_case(w["comp"], w["op"], w["vt"], scratch, out, only=(w["n"], w["torn"], w.get("death", "exit")) if w.get("n") else None)
    else:
        for vt in spec["vtypes"]:
            run_case(spec["comp"], spec["op"], vt, scratch, out)
    out["nontrivial"] = sorted(out["nontrivial"])
    out["violations"] = [v for lst in out["violations"].values() for v in lst]
    return out


def replay(spec):
    return run_shard(spec)


def finalize(m, tier, seed):
    inc = []
    for k in ("recovery_checks", "traces", "opkind.write", "opkind.open_write", "opkind.remove", "observed.nothing", "observed.value"):
        if not m["counters"].get(k):
            inc.append("coverage class %s empty" % k)
    if m["counters"].get("not_crashed", 0) > 0:
        inc.append("%d injected runs did not reach their crash point" % m["counters"]["not_crashed"])
    extra = {"inconclusive": inc, "exhaustive": True,
             "exhaustive_subspaces": ["every recorded operation boundary x torn variants {1, len//2, len-1} of every write, per case"]}
    if tier == "thorough":
        extra["traces_validated_against_impl"] = strace_crosscheck()
    return extra


def strace_crosscheck():
    """thorough tier: the mutating system calls strace sees for one operation of each component must be covered by the
    interposer's trace (same number of creating opens, unlinks, renames, mkdirs on the scratch directory)"""
    import subprocess
    import sys
    import tempfile
    from lqv import boot

    ok = 0
    base = tempfile.mkdtemp(prefix="lqv_c16_strace_", dir=boot.scratch_base())
    try:
        for comp in COMPONENTS:
            d = os.path.join(base, comp)
            os.makedirs(d)
            code = ("import sys,os,json\nsys.path[0:0]=[%r,%r,%r]\nfrom lqv import boot\nboot.silence()\nboot.import_liquer()\n"
                    "from lqv.checks import c16\nfrom lqv import crash\nold,new,perform=c16.prepare(%r,'store_fresh','text',%r)\n"
                    "st,tr=crash.run_in_child(%r, lambda: perform(c16.build(%r,%r)), record=True)\n"
                    "open(%r,'w').write(json.dumps(tr))\n") % (boot.ROOT, boot.DEPS, boot.REPO, comp, d, d, comp, d, os.path.join(base, comp + ".trace"))
            log = os.path.join(base, comp + ".strace")
            r = subprocess.run(["strace", "-f", "-o", log, "-e", "trace=openat,unlink,unlinkat,rename,renameat,renameat2,mkdir,mkdirat,rmdir",
                                boot.PYTHON, "-c", code], stdout=subprocess.DEVNULL, stderr=subprocess.DEVNULL, timeout=300,
                               pass_fds=())
            try:
                import json

                tr = json.load(open(os.path.join(base, comp + ".trace")))
            except Exception:
                continue
            lines = [l for l in open(log, errors="replace").read().splitlines() if l and l.split()[0].isdigit()]
            if not lines:
                continue
            main_pid = lines[0].split()[0]
            seq = []
            for l in lines:
                pid, rest = l.split(None, 1)
                if pid == main_pid or ((d + "/") not in rest and ('"%s"' % d) not in rest):
                    continue
                if rest.startswith(("mkdir(", "mkdirat(")):
                    seq.append("mkdir")
                elif rest.startswith("openat(") and ("O_WRONLY" in rest or "O_RDWR" in rest or "O_CREAT" in rest):
                    seq.append("open_write")
                elif rest.startswith(("rename(", "renameat(", "renameat2(")):
                    seq.append("rename")
                elif rest.startswith(("unlink(", "unlinkat(")):
                    seq.append("rmdir" if "AT_REMOVEDIR" in rest else "remove")
                elif rest.startswith("rmdir("):
                    seq.append("rmdir")
            mine = [t[0] for t in tr if t[0] != "write"]
            if seq == mine:
                ok += 1
    except Exception:
        pass
    finally:
        shutil.rmtree(base, ignore_errors=True)
    return ok
