"""C05 - cache admission: only finished, successful, non-volatile results are served.

Same histories as C04 with an inspection step after EVERY evaluation: for every key the cache lists and for the
canonical and as-typed spelling of every (sub)query evaluated so far, whatever cache.get serves must be filed under
canonical text, must not belong to a failing / volatile / cache-disabled key (classified by the reference interpreter),
and its data must equal a fresh evaluation of the key.  Metadata-only entries are allowed.
"""
from lqv.checks import c04 as _c04

PROPERTY = "C05"
LEVEL = "exploration"
RULE = ("histories of C04 (biased to volatile / cache-disabling / failing steps and non-canonical as-typed spellings) for "
        "17 cache configurations; after every evaluation the cache is inspected for every listed key and every spelling of "
        "every (sub)query evaluated so far. Evaluations = keys inspected; non-trivial = the cache served a state for the "
        "key; distinct = distinct (configuration, history, step).")
ASSUMPTIONS = _c04.ASSUMPTIONS + ["admissibility of a key is classified by the reference interpreter (volatile, caching switched off, failing)"]
SHARD_TIMEOUT = _c04.SHARD_TIMEOUT
shards = _c04.shards


def run_shard(spec):
    r = _c04.run_shard(spec, mode="C05")
    r["evaluations"] = r["counters"].get("inspected_keys", 0)
    return r


replay = run_shard


def finalize(m, tier, seed):
    inc = []
    if not m["counters"].get("served_keys"):
        inc.append("the cache never served any inspected key")
    if not m["counters"].get("inspected_keys"):
        inc.append("no key inspected")
    return {"inconclusive": inc}
