"""C20 - the web service is a faithful transport of the library.

Monitor: differential. A Flask test client on an app carrying the real blueprint is compared with the library called
directly: query responses (status, body bytes, Content-Type) against the in-process evaluation serialised by the file
extension; cache and store endpoints against the same call on an identically prepared twin (same history on both, full
views compared after every call); remote registration against the enable/disable history; the RemoteStore client, its
HTTP calls rebound to the test client, against the served store's twin.
"""
import copy
import json
import random
from urllib.parse import quote

PROPERTY = "C20"
LEVEL = "exploration"
RULE = ("(1) seeded C01-vocabulary queries with adversarial argument text, every kind of result type and file extensions, "
        "plain / with URL arguments / with a JSON body, failing queries; (2) seeded histories of cache endpoints; (3) seeded "
        "histories of store endpoints on memory, directory and default-composition stores; (4) all enable/disable histories "
        "of length <= 4 of remote registration followed by a GET and a POST registration of a fresh command and its "
        "evaluation; (5) RemoteStore histories. Evaluations = requests compared; non-trivial = request with a file "
        "extension, arguments, a failing query, or a mutating endpoint; distinct = distinct (part, history, step).")
ASSUMPTIONS = ["query text is sent percent-quoted so that the text reaching the service is exactly the query",
               "RemoteStore's requests.get/post are rebound to the Flask test client (no sockets)"]
SHARD_TIMEOUT = {"quick": 900, "thorough": 5400}

EXTS = ["txt", "json", "html", "pickle", "csv", "b", "djson", "md", "pkl", "tar.gz", "parquet", "unknownext"]


def shards(tier, seed):
    out = []
    m = 6 if tier == "quick" else 24
    for k in range(m):
        out.append({"kind": "queries", "part": k, "n": 70 if tier == "quick" else 500})
    for k in range(2 if tier == "quick" else 8):
        out.append({"kind": "cache_api", "part": k, "n": 20 if tier == "quick" else 100})
    for cfg in ("memory", "file", "global(memory)", "readonly(memory)"):
        for k in range(1 if tier == "quick" else 4):
            out.append({"kind": "store_api", "cfg": cfg, "part": k, "n": 20 if tier == "quick" else 80})
    out.append({"kind": "registration"})
    out.append({"kind": "misc", "n": 25 if tier == "quick" else 150})
    for cfg in ("memory", "file", "readonly(memory)"):
        out.append({"kind": "remote_store", "cfg": cfg, "n": 30 if tier == "quick" else 120})
    return out


def make_app():
    from flask import Flask
    import liquer.server.blueprint as bp

    app = Flask("lqv_c20")
    app.register_blueprint(bp.app, url_prefix="/liquer")
    app.config["TESTING"] = True
    return app


class Ctx:
    def __init__(self, spec):
        self.out = {"evaluations": 0, "nontrivial": set(), "violations": {}, "counters": {}, "samples": [], "inconclusive": []}
        self.spec = spec

    def count(self, k, n=1):
        self.out["counters"][k] = self.out["counters"].get(k, 0) + n

    def viol(self, what, detail, witness):
        sig = "C20|%s" % what
        lst = self.out["violations"].setdefault(sig, [])
        if len(lst) < 3:
            lst.append({"sig": sig, "what": detail[:1200], "witness": witness})


# ----------------------------------------------------------------------------------------
# (1) queries


def part_queries(cx):
    from liquer.state_types import encode_state_data
    from liquer.context import Context
    from liquer.cache import set_cache, NoCache
    from lqv import evalcache as E, vocab, refinterp as R
    from lqv.gen.query import QGen

    env = E.Env()
    client = make_app().test_client()
    spec = cx.spec
    rnd = random.Random("%s/C20q/%s" % (spec["seed"], spec.get("part")))
    g = QGen(rnd, allow_fail=True, allow_volatile=True, allow_mutators=False, max_len=4)
    g.avoid_none_default = True

    def one(case):
        q, args, body = case["q"], case.get("args"), case.get("body")
        extra = {}
        if body:
            extra.update(body)
        if args:
            extra.update(args)
        set_cache(NoCache())
        # in-process
        exp = {"ok": False}
        try:
            st = Context().evaluate(q, extra_parameters=copy.deepcopy(extra))
            if not st.is_error:
                b, mime, _tid = encode_state_data(st.get(), extension=st.extension)
                exp = {"ok": True, "body": b, "mime": mime}
        except Exception:
            pass
        url = "/liquer/q/" + quote(q)
        try:
            if body is not None:
                r = client.post(url, data=json.dumps(body), query_string=args or None, content_type="application/json")
            else:
                r = client.get(url, query_string=args or None)
        except Exception as e:
            cx.viol("request_raises", "GET %r raised %r" % (url, e), case)
            return
        cx.out["evaluations"] += 1
        cx.count("queries")
        if not exp["ok"]:
            cx.count("failing_queries")
            cx.out["nontrivial"].add("q|" + q)
            if 200 <= r.status_code < 300:
                cx.viol("failing query answered with a success status",
                        "query %r (args %r): in-process evaluation/serialisation fails, HTTP %d body %r" % (q, extra, r.status_code, r.data[:80]), case)
            return
        if "." in q.split("/")[-1] or extra:
            cx.out["nontrivial"].add("q|%s|%r" % (q, extra))
        if not (200 <= r.status_code < 300):
            cx.viol("successful query answered with an error status", "query %r (args %r): HTTP %d" % (q, extra, r.status_code), case)
            return
        if r.data != exp["body"]:
            cx.viol("response body differs from the serialised in-process result",
                    "query %r (args %r): want %r got %r" % (q, extra, exp["body"][:100], r.data[:100]), case)
        ct = (r.headers.get("Content-Type") or "").split(";")[0].strip()
        if ct != exp["mime"]:
            cx.viol("media type differs", "query %r: want %r got %r" % (q, exp["mime"], r.headers.get("Content-Type")), case)
        if len(cx.out["samples"]) < 2 and cx.out["evaluations"] % 37 == 3:
            cx.out["samples"].append({"query": q, "status": r.status_code, "content_type": ct, "bytes": len(r.data)})

    if "replay" in spec:
        one(spec["replay"])
        return
    for _ in range(spec["n"]):
        q = g.query(0)
        r = rnd.random()
        if r < 0.6:
            q += "/" + rnd.choice(["out", "data", "x_1", "r"]) + "." + rnd.choice(EXTS)
            cx.count("with_extension")
        case = {"kind": "queries", "q": q}
        r = rnd.random()
        if r < 0.12:
            case["args"] = rnd.choice([{"y": "4"}, {"a": "w"}, {"b": "t"}, {"nope": "1"}])
            cx.count("with_url_arguments")
        elif r < 0.2:
            case["body"] = rnd.choice([{"y": "5"}, {"s": "body"}, {}])
            cx.count("with_json_body")
        one(case)


# ----------------------------------------------------------------------------------------
# (2) cache endpoints


def part_cache(cx):
    from liquer.cache import MemoryCache, set_cache
    from liquer.state import State
    from liquer.state_types import encode_state_data
    from lqv import refinterp as R
    from lqv import vocab

    vocab.register_all()
    spec = cx.spec
    rnd = random.Random("%s/C20c/%s" % (spec["seed"], spec.get("part")))
    client = make_app().test_client()
    KEYS = ["a", "a/b", "a/b-c", "x-~X~/y~E", "k.txt", "one/add-1", "lit-%C3%A9", "greet-a~.b", "greet-a%20b", "lit-é"]

    def mkstate(k, n):
        v = rnd.choice(["text %d" % n, n, {"n": n}, b"bytes%d" % n, [n, "l"]])
        st = State().with_data(v)
        st.query = k
        st.metadata["status"] = "ready"
        return st

    def view(c):
        out = {}
        for k in KEYS:
            g = c.get(k)
            out[k] = None if g is None else (repr(g.data), g.metadata.get("status"))
            m = c.get_metadata(k)
            out[k + "#m"] = None if m is None else (m.get("status"), m.get("query"))
            out[k + "#c"] = bool(c.contains(k))
        out["#keys"] = sorted(c.keys())
        return out

    def history(hist):
        served, twin = MemoryCache(), MemoryCache()
        set_cache(served)
        for step, op in enumerate(hist):
            w = {"kind": "cache_api", "history": hist[:step + 1]}
            kind, k = op[0], op[1]
            cx.out["evaluations"] += 1
            cx.count("cache." + kind)
            u = quote(k)
            try:
                if kind == "lib_store":
                    # data reaches the cache through evaluation in real life: plant it in both
                    st = mkstate(k, op[2])
                    served.store(st.clone())
                    twin.store(st.clone())
                    continue
                if kind == "get":
                    # the library operation first: an entry whose (posted) metadata is incomplete makes the library
                    # itself fail - then the service has to fail too, and that is all that is demanded
                    try:
                        g = twin.get(k)
                        b = None if g is None else encode_state_data(g.get(), extension=g.extension)[0]
                        lib_exc = None
                    except Exception as e:
                        g, b, lib_exc = None, None, e
                    try:
                        r = client.get("/liquer/api/cache/get/" + u)
                        status, body = r.status_code, r.data
                    except Exception as e:
                        status, body = 500, repr(e).encode()
                    if lib_exc is not None:
                        cx.count("cache.get_library_fails")
                        if 200 <= status < 300:
                            cx.viol("cache.get answers where the library operation fails", "key %r: library %r, HTTP %d %r" % (k, lib_exc, status, body[:60]), w)
                    elif g is None:
                        if status != 404:
                            cx.viol("cache.get of an absent key not answered with 404", "key %r: HTTP %d" % (k, status), w)
                    else:
                        if status != 200 or body != b:
                            cx.viol("cache.get differs from the library", "key %r: want %r got HTTP %d %r" % (k, b[:60], status, body[:60]), w)
                elif kind == "meta":
                    r = client.get("/liquer/api/cache/meta/" + u)
                    m = twin.get_metadata(k)
                    got = r.get_json(silent=True)
                    if (m is None) != (got is None) or (m is not None and (got.get("query"), got.get("status")) != (m.get("query"), m.get("status"))):
                        cx.viol("cache.meta differs from the library", "key %r: want %r got %r" % (k, m and (m.get("query"), m.get("status")), got), w)
                elif kind == "post_meta":
                    md = {"query": k, "status": op[2], "x": 1}
                    cx.out["nontrivial"].add("c|%d|%s" % (step, k))
                    r = client.post("/liquer/api/cache/meta/" + u, data=json.dumps(md), content_type="application/json")
                    res = twin.store_metadata(copy.deepcopy(md))
                    got = r.get_json(silent=True) or {}
                    if got.get("status") != "OK" or bool(got.get("result")) != bool(res):
                        cx.viol("cache.store_metadata result differs", "key %r: library %r, service %r" % (k, res, got), w)
                elif kind == "remove":
                    cx.out["nontrivial"].add("c|%d|%s" % (step, k))
                    r = client.get("/liquer/api/cache/remove/" + u)
                    res = twin.remove(k)
                    got = r.get_json(silent=True) or {}
                    if bool(got.get("removed")) != bool(res):
                        cx.viol("cache.remove result differs", "key %r: library %r, service %r" % (k, res, got), w)
                elif kind == "contains":
                    r = client.get("/liquer/api/cache/contains/" + u)
                    got = r.get_json(silent=True) or {}
                    if bool(got.get("cached")) != bool(twin.contains(k)):
                        cx.viol("cache.contains differs", "key %r: library %r, service %r" % (k, twin.contains(k), got), w)
                elif kind == "keys":
                    r = client.get("/liquer/api/cache/keys.json")
                    got = r.get_json(silent=True) or {}
                    if sorted(got.get("keys", [])) != sorted(twin.keys()):
                        cx.viol("cache.keys differs", "library %r, service %r" % (sorted(twin.keys()), got), w)
                elif kind == "clean":
                    cx.out["nontrivial"].add("c|%d|clean" % step)
                    r = client.get("/liquer/api/cache/clean")
                    twin.clean()
                    if r.status_code != 200:
                        cx.viol("cache.clean failed", "HTTP %d" % r.status_code, w)
            except Exception as e:
                cx.viol("cache endpoint raises", "%r: %r" % (op, e), w)
                return
            a, b = view(served), view(twin)
            if a != b:
                diff = [x for x in a if a[x] != b.get(x)]
                cx.viol("cache endpoint effect differs from the library", "after %r: differing %r: served %r twin %r" % (
                    op, diff[:3], [a[x] for x in diff[:3]], [b[x] for x in diff[:3]]), w)
                return

    if "replay" in spec:
        history(spec["replay"]["history"])
        return
    for _ in range(spec["n"]):
        hist = []
        for i in range(rnd.randint(5, 14)):
            k = rnd.choice(KEYS)
            r = rnd.random()
            if r < 0.3:
                hist.append(["lib_store", k, i])
            elif r < 0.42:
                hist.append(["get", k])
            elif r < 0.52:
                hist.append(["meta", k])
            elif r < 0.64:
                hist.append(["post_meta", k, rnd.choice(["ready", "evaluation", "error"])])
            elif r < 0.78:
                hist.append(["remove", k])
            elif r < 0.88:
                hist.append(["contains", k])
            elif r < 0.95:
                hist.append(["keys", ""])
            else:
                hist.append(["clean", ""])
        history(hist)


# ----------------------------------------------------------------------------------------
# (3) store endpoints   and   (5) RemoteStore


STORE_KEYS = ["a", "a/b.txt", "a/c/d.json", "e.txt", "f", "f/g.bin", "h i.txt", "k-1/l~2.txt", "a2/keep.txt", "ab.txt", "a2"]


def store_view(s, prefix=""):
    out = {}
    for k in [""] + [prefix + x for x in STORE_KEYS]:
        try:
            out[k + "#c"] = bool(s.contains(k))
            out[k + "#d"] = bool(s.is_dir(k))
        except Exception as e:
            out[k + "#c"] = "raises"
        try:
            out[k + "#b"] = s.get_bytes(k)
        except Exception:
            out[k + "#b"] = "raises"
        try:
            m = s.get_metadata(k)
            out[k + "#m"] = (m.get("x_user"), m.get("key"), (m.get("fileinfo") or {}).get("is_dir"), m.get("title"))
        except Exception:
            out[k + "#m"] = "raises"
    try:
        out["#keys"] = sorted(s.keys())
    except Exception:
        out["#keys"] = "raises"
    return out


def build_store_pair(cfg, scratch):
    from lqv import storecfg

    a = storecfg.build(cfg, scratch)
    b = storecfg.build(cfg, scratch)
    return a, b


def part_store(cx):
    from liquer.store import set_store
    from lqv import vocab

    vocab.register_all()
    spec = cx.spec
    rnd = random.Random("%s/C20s/%s/%s" % (spec["seed"], spec.get("cfg"), spec.get("part")))
    client = make_app().test_client()

    def history(cfg, hist):
        A, B = build_store_pair(cfg, spec["scratch"])
        try:
            served, twin = A.store, B.store
            set_store(served)
            pre = A.prefix
            for step, op in enumerate(hist):
                kind, k = op[0], pre + op[1]
                u = quote(k)
                w = {"kind": "store_api", "cfg": cfg, "history": hist[:step + 1]}
                cx.out["evaluations"] += 1
                cx.count("store." + kind)

                def lib(f):
                    try:
                        return ("ok", f())
                    except Exception as e:
                        return ("raises", type(e).__name__)

                try:
                    if kind == "post_data":
                        cx.out["nontrivial"].add("s|%s|%d" % (cfg, step))
                        r = client.post("/liquer/api/store/data/" + u, data=op[2].encode(), content_type="application/octet-stream")

                        def f():
                            try:
                                md = twin.get_metadata(k)
                            except Exception:
                                md = {}
                            twin.store(k, op[2].encode(), md)
                        res = lib(f)
                        ok = (r.get_json(silent=True) or {}).get("status") == "OK"
                        if ok != (res[0] == "ok"):
                            cx.viol("store.data POST result differs", "key %r: library %r service %r" % (k, res, r.get_json(silent=True)), w)
                    elif kind == "post_metadata":
                        cx.out["nontrivial"].add("s|%s|%d" % (cfg, step))
                        md = {"x_user": op[2]}
                        r = client.post("/liquer/api/store/metadata/" + u, data=json.dumps(md), content_type="application/json")
                        res = lib(lambda: twin.store_metadata(k, copy.deepcopy(md)))
                        ok = (r.get_json(silent=True) or {}).get("status") == "OK"
                        if ok != (res[0] == "ok"):
                            cx.viol("store.metadata POST result differs", "key %r: library %r service %r" % (k, res, r.get_json(silent=True)), w)
                    elif kind == "get_data":
                        r = client.get("/liquer/api/store/data/" + u)
                        res = lib(lambda: twin.get_bytes(k))
                        if res[0] == "ok" and res[1] is not None:
                            if r.status_code != 200 or r.data != res[1]:
                                cx.viol("store.data GET differs", "key %r: library %r service HTTP %d %r" % (k, res[1][:40], r.status_code, r.data[:40]), w)
                        elif 200 <= r.status_code < 300:
                            cx.viol("store.data GET of an unreadable key answered with success", "key %r: library %r service HTTP %d" % (k, res, r.status_code), w)
                    elif kind == "get_metadata":
                        res = lib(lambda: twin.get_metadata(k))
                        try:
                            r = client.get("/liquer/api/store/metadata/" + u)
                            got = r.get_json(silent=True) if 200 <= r.status_code < 300 else None
                        except Exception:
                            got = None
                        if res[0] == "ok":
                            if got is None or got.get("x_user") != res[1].get("x_user") or got.get("key") != res[1].get("key"):
                                cx.viol("store.metadata GET differs", "key %r: library %r service %r" % (k, (res[1].get("x_user"), res[1].get("key")), got and (got.get("x_user"), got.get("key"))), w)
                        elif got is not None:
                            cx.viol("store.metadata GET of an absent key answered with success", "key %r" % k, w)
                    elif kind in ("remove", "removedir", "makedir"):
                        cx.out["nontrivial"].add("s|%s|%d" % (cfg, step))
                        r = client.get("/liquer/api/store/%s/%s" % (kind, u))
                        res = lib(lambda: getattr(twin, kind)(k))
                        ok = (r.get_json(silent=True) or {}).get("status") == "OK"
                        if ok != (res[0] == "ok"):
                            cx.viol("store.%s result differs" % kind, "key %r: library %r service %r" % (k, res, (r.get_json(silent=True) or {}).get("status")), w)
                    elif kind in ("contains", "is_dir", "listdir"):
                        r = client.get("/liquer/api/store/%s/%s" % (kind, u))
                        res = lib(lambda: getattr(twin, kind)(k))
                        got = r.get_json(silent=True) or {}
                        if res[0] == "ok":
                            want = res[1]
                            have = got.get(kind)
                            if kind == "listdir":
                                want, have = sorted(want or []), sorted(have or [])
                            else:
                                want, have = bool(want), bool(have)
                            if got.get("status") != "OK" or want != have:
                                cx.viol("store.%s differs" % kind, "key %r: library %r service %r" % (k, res[1], got), w)
                        elif got.get("status") == "OK":
                            cx.viol("store.%s of a failing key answered OK" % kind, "key %r: library %r" % (k, res), w)
                    elif kind == "keys":
                        r = client.get("/liquer/api/store/keys")
                        got = r.get_json(silent=True) or {}
                        res = lib(lambda: sorted(twin.keys()))
                        if res[0] == "ok" and (got.get("status") != "OK" or sorted(got.get("keys") or []) != res[1]):
                            cx.viol("store.keys differs", "library %r service %r" % (res[1][:6], str(got)[:160]), w)
                except Exception as e:
                    cx.viol("store endpoint raises", "%r: %r" % (op[:2], e), w)
                    return
                a, b = store_view(served, pre), store_view(twin, pre)
                if a != b:
                    diff = [x for x in a if a[x] != b.get(x)]
                    cx.viol("store endpoint effect differs from the library", "%s after %r: %r served %r twin %r" % (
                        cfg, op[:2], diff[:3], [a[x] for x in diff[:3]], [b[x] for x in diff[:3]]), w)
                    return
        finally:
            A.close()
            B.close()

    if "replay" in spec:
        history(spec["replay"]["cfg"], spec["replay"]["history"])
        return
    for _ in range(spec["n"]):
        history(spec["cfg"], gen_store_history(rnd))


def gen_store_history(rnd, kinds=None):
    hist = []
    for i in range(rnd.randint(5, 14)):
        k = rnd.choice(STORE_KEYS)
        r = rnd.random()
        if r < 0.28:
            hist.append(["post_data", k, "data-%d-%s" % (i, k)])
        elif r < 0.38:
            hist.append(["post_metadata", k, "u%d" % i])
        elif r < 0.48:
            hist.append(["get_data", k])
        elif r < 0.56:
            hist.append(["get_metadata", k])
        elif r < 0.66:
            hist.append(["remove", k])
        elif r < 0.72:
            hist.append(["removedir", k])
        elif r < 0.78:
            hist.append(["makedir", k])
        elif r < 0.84:
            hist.append(["contains", k])
        elif r < 0.89:
            hist.append(["is_dir", k])
        elif r < 0.95:
            hist.append(["listdir", rnd.choice(["a", "a/c", "f", "e.txt"])])
        else:
            hist.append(["keys", ""])
    return hist


def part_remote_store(cx):
    import liquer.remote_store as RS
    from liquer.store import set_store
    from lqv import vocab

    vocab.register_all()
    spec = cx.spec
    rnd = random.Random("%s/C20r/%s" % (spec["seed"], spec.get("cfg")))
    client = make_app().test_client()

    class Resp:
        def __init__(self, r):
            self.r = r
            self.content = r.data
            self.status_code = r.status_code
            self.ok = 200 <= r.status_code < 300

        def json(self):
            return self.r.get_json()

        def raise_for_status(self):
            if self.status_code >= 400:
                raise RuntimeError("HTTP %d" % self.status_code)

    class FakeRequests:
        @staticmethod
        def get(url, **kw):
            return Resp(client.get(quote(url, safe="/:?=&")))

        @staticmethod
        def post(url, data=None, json=None, headers=None, **kw):
            import json as J

            if json is not None:
                return Resp(client.post(quote(url, safe="/:?=&"), data=J.dumps(json), content_type="application/json"))
            return Resp(client.post(quote(url, safe="/:?=&"), data=data, headers=headers or {}))

    RS.requests = FakeRequests

    def history(cfg, hist):
        A, B = build_store_pair(cfg, spec["scratch"])
        try:
            served, twin = A.store, B.store
            set_store(served)
            remote = RS.RemoteStore("/liquer/api/")
            for step, op in enumerate(hist):
                kind, k = op[0], op[1]
                w = {"kind": "remote_store", "cfg": cfg, "history": hist[:step + 1]}
                cx.out["evaluations"] += 1
                cx.count("remote." + kind)
                cx.out["nontrivial"].add("r|%s|%d|%s" % (cfg, step, kind))

                def both(f):
                    def run(s):
                        try:
                            return ("ok", f(s))
                        except Exception as e:
                            return ("raises", type(e).__name__)
                    return run(remote), run(twin)

                if kind == "store":
                    ra, rb = both(lambda s: s.store(k, op[2].encode(), {"x_user": op[2], "title": "T" + op[2]}))
                elif kind == "store_nometa":
                    # an overwrite that brings no metadata of its own: what was recorded for the previous data goes
                    ra, rb = both(lambda s: s.store(k, op[2].encode(), {}))
                elif kind == "store_metadata":
                    ra, rb = both(lambda s: s.store_metadata(k, {"x_user": op[2]}))
                elif kind == "remove":
                    ra, rb = both(lambda s: s.remove(k))
                elif kind == "makedir":
                    ra, rb = both(lambda s: s.makedir(k))
                elif kind == "removedir":
                    ra, rb = both(lambda s: s.removedir(k))
                elif kind == "removedir_recursive":
                    ra, rb = both(lambda s: s.removedir(k, recursive=True))
                elif kind == "contains":
                    ra, rb = both(lambda s: bool(s.contains(k)))
                elif kind == "is_dir":
                    ra, rb = both(lambda s: bool(s.is_dir(k)))
                elif kind == "get_bytes":
                    ra, rb = both(lambda s: s.get_bytes(k))
                elif kind == "get_metadata":
                    ra, rb = both(lambda s: s.get_metadata(k).get("x_user"))
                elif kind == "listdir":
                    ra, rb = both(lambda s: sorted(s.listdir(k) or []))
                elif kind == "keys":
                    ra, rb = both(lambda s: sorted(s.keys()))
                else:
                    continue
                if rb[0] == "ok" and ra != rb:
                    cx.viol("RemoteStore.%s differs from the store" % kind, "key %r: store %r, remote %r" % (k, rb, ra), w)
                    return
                if rb[0] == "raises" and ra[0] == "ok" and kind in ("store", "store_nometa", "store_metadata", "remove", "makedir",
                                                                       "removedir", "removedir_recursive"):
                    cx.count("remote.refused_by_the_store")
                    cx.viol("RemoteStore.%s returns normally where the store refuses" % kind, "key %r: store %r, remote %r" % (k, rb, ra), w)
                    return
                # the client's own view (no stale answers) ...
                for kk in STORE_KEYS:
                    for probe in ("is_dir", "contains"):
                        try:
                            ra2, rb2 = bool(getattr(remote, probe)(kk)), bool(getattr(twin, probe)(kk))
                        except Exception:
                            continue
                        if ra2 != rb2:
                            cx.viol("RemoteStore.%s answers differently from the store afterwards" % probe,
                                    "%s after %r: %s(%r) remote %r store %r" % (cfg, op[:2], probe, kk, ra2, rb2), w)
                            return
                # ... and the effect on the served store
                a, b = store_view(served), store_view(twin)
                if a != b:
                    diff = [x for x in a if a[x] != b.get(x)]
                    cx.viol("RemoteStore.%s effect on the served store differs" % kind, "%s after %r: %r served %r twin %r" % (
                        cfg, op[:2], diff[:3], [a[x] for x in diff[:3]], [b[x] for x in diff[:3]]), w)
                    return
        finally:
            A.close()
            B.close()

    if "replay" in spec:
        history(spec["replay"]["cfg"], spec["replay"]["history"])
        return
    for _ in range(spec["n"]):
        hist = []
        for i in range(rnd.randint(4, 10)):
            k = rnd.choice(STORE_KEYS)
            r = rnd.random()
            if r < 0.3:
                hist.append(["store", k, "v%d" % i])
            elif r < 0.36:
                hist.append(["store_nometa", k, "n%d" % i])
            elif r < 0.45:
                hist.append(["store_metadata", k, "m%d" % i])
            elif r < 0.55:
                hist.append(["remove", k])
            elif r < 0.6:
                hist.append(["makedir", k])
            elif r < 0.64:
                hist.append([rnd.choice(["removedir", "removedir_recursive", "removedir_recursive"]), rnd.choice(["a", "f", "a/c", "a2", k])])
            elif r < 0.7:
                hist.append(["contains", k])
            elif r < 0.76:
                hist.append(["is_dir", k])
            elif r < 0.86:
                hist.append(["get_bytes", k])
            elif r < 0.92:
                hist.append(["get_metadata", k])
            elif r < 0.97:
                hist.append(["listdir", rnd.choice(["a", "f"])])
            else:
                hist.append(["keys", ""])
        history(spec["cfg"], hist)


# ----------------------------------------------------------------------------------------
# (4) remote registration


def part_registration(cx):
    import itertools
    import base64
    import liquer.commands as C
    from liquer.commands import command_registry, command_metadata_from_callable, CommandRegistry
    from liquer.context import Context
    from liquer.cache import set_cache, NoCache
    from lqv import vocab

    client = make_app().test_client()
    n = 0
    for L in range(0, 5):
        for hist in itertools.product(["enable", "disable"], repeat=L):
            for method in ("GET", "POST"):
                vocab.register_all()
                set_cache(NoCache())
                C._remote_registration = False
                for h in hist:
                    (C.enable_remote_registration if h == "enable" else C.disable_remote_registration)()
                expected_enabled = bool(hist) and hist[-1] == "enable"
                n += 1
                name = "remote_cmd_%d" % n
                src = "def %s(x=1):\n    return 'remote:%d'\n" % (name, n)
                ns = {}
                exec(src, ns)
                f = ns[name]
                md = command_metadata_from_callable(f, has_state_argument=False, attributes={"ns": "root"})
                w = {"kind": "registration", "history": list(hist), "method": method}
                cx.out["evaluations"] += 1
                cx.out["nontrivial"].add("g|%s|%s" % (",".join(hist), method))
                cx.count("registration." + method)
                if method == "GET":
                    data = CommandRegistry.encode_registration_base64(f, md).decode("ascii")
                    r = client.get("/liquer/api/register_command/" + data)
                else:
                    r = client.post("/liquer/api/register_command/", data=CommandRegistry.encode_registration(f, md))
                got = r.get_json(silent=True) or {}
                accepted = got.get("status") == "OK"
                try:
                    st = Context().evaluate(name)
                    effective = (not st.is_error) and st.get() == "remote:%d" % n
                except Exception:
                    effective = False
                if accepted != expected_enabled or effective != expected_enabled:
                    cx.viol("remote registration %s while registration is %s" % (
                        "accepted" if (accepted or effective) else "refused", "enabled" if expected_enabled else "not enabled"),
                        "history %r, %s registration: reported %r, command usable %r" % (list(hist), method, got.get("status"), effective), w)
                if C.is_remote_registration_enabled() != expected_enabled:
                    cx.viol("is_remote_registration_enabled disagrees with the enable/disable history",
                            "history %r: flag %r" % (list(hist), C.is_remote_registration_enabled()), w)
    # hostile / malformed payloads while registration is not enabled must be refused without side effects
    import pickle

    class _Hostile:
        def __reduce__(self):
            return (C.enable_remote_registration, ())

    for payload_name, payload in (("malformed", b"Bnot-a-pickle"), ("empty", b"B"),
                                  ("pickle_with_side_effect", b"B" + pickle.dumps(_Hostile())),
                                  ("base64_side_effect", b"E" + base64.urlsafe_b64encode(b"B" + pickle.dumps(_Hostile())))):
        vocab.register_all()
        C._remote_registration = False
        w = {"kind": "registration", "history": [], "method": "POST", "payload": payload_name}
        cx.out["evaluations"] += 1
        cx.count("registration.hostile")
        try:
            client.post("/liquer/api/register_command/", data=payload)
        except Exception:
            pass
        if C.is_remote_registration_enabled():
            cx.viol("a payload sent while registration is not enabled switched registration on",
                    "payload %s: is_remote_registration_enabled() is True afterwards" % payload_name, w)
            C._remote_registration = False
            continue
        n += 1
        name = "remote_cmd_%d" % n
        ns = {}
        exec("def %s(x=1):\n    return 'remote:%d'\n" % (name, n), ns)
        md = command_metadata_from_callable(ns[name], has_state_argument=False, attributes={"ns": "root"})
        r = client.post("/liquer/api/register_command/", data=CommandRegistry.encode_registration(ns[name], md))
        if (r.get_json(silent=True) or {}).get("status") == "OK":
            cx.viol("remote registration accepted while registration is not enabled", "after payload %s" % payload_name, w)
    C._remote_registration = False
    cx.out["samples"].append({"part": "registration", "histories": n})


def part_misc(cx):
    """remaining endpoints: upload (== store), commands.json (== registry), build (== encode), debug-json (== metadata)"""
    import io
    from liquer.store import set_store, MemoryStore
    from liquer.commands import command_registry
    from liquer.parser import encode
    from liquer.context import Context
    from liquer.cache import set_cache, NoCache
    from lqv import vocab
    from lqv.gen.query import QGen

    vocab.register_all()
    set_cache(NoCache())
    spec = cx.spec
    rnd = random.Random("%s/C20m" % spec["seed"])
    client = make_app().test_client()
    served, twin = MemoryStore(), MemoryStore()
    set_store(served)
    # commands.json
    cx.out["evaluations"] += 1
    cx.count("misc.commands")
    got = client.get("/liquer/api/commands.json").get_json(silent=True)
    want = json.loads(json.dumps(command_registry().as_dict(), default=str))
    if got is None or set(got.keys()) != set(want.keys()) or any(set(got[n]) != set(want[n]) for n in want):
        cx.viol("commands.json differs from the registry", "namespaces %r vs %r" % (sorted(got or {}), sorted(want)), {"kind": "misc"})
    g = QGen(rnd, allow_fail=True, max_len=3)
    g.avoid_none_default = True
    for i in range(spec["n"]):
        # upload
        k = rnd.choice(STORE_KEYS)
        data = ("upload-%d" % i).encode() * rnd.choice([1, 50])
        cx.out["evaluations"] += 1
        cx.count("misc.upload")
        cx.out["nontrivial"].add("m|upload|%d" % i)
        r = client.post("/liquer/api/store/upload/" + quote(k), data={"file": (io.BytesIO(data), "f.bin")}, content_type="multipart/form-data")
        try:
            try:
                md = twin.get_metadata(k)
            except Exception:
                md = {}
            twin.store(k, data, md)
            ok = True
        except Exception:
            ok = False
        if ((r.get_json(silent=True) or {}).get("status") == "OK") != ok:
            cx.viol("store.upload result differs", "key %r: library ok=%r service %r" % (k, ok, r.get_json(silent=True)), {"kind": "misc"})
        a, b = store_view(served), store_view(twin)
        if a != b:
            diff = [x for x in a if a[x] != b.get(x)]
            cx.viol("store.upload effect differs from the library", "key %r: %r" % (k, diff[:3]), {"kind": "misc"})
            served, twin = MemoryStore(), MemoryStore()
            set_store(served)
        # build
        ql = [[rnd.choice(["a", "cmd", "x_1"])] + [rnd.choice(["p", "a-b", "x/y", "~", "é €", ""]) for _ in range(rnd.randint(0, 3))] for _ in range(rnd.randint(1, 3))]
        cx.out["evaluations"] += 1
        cx.count("misc.build")
        r = client.post("/liquer/api/build", data=json.dumps({"ql": ql}), content_type="application/json")
        if (r.get_json(silent=True) or {}).get("query") != encode(ql):
            cx.viol("build differs from encode", "ql %r: service %r library %r" % (ql, (r.get_json(silent=True) or {}).get("query"), encode(ql)), {"kind": "misc"})
        # debug-json
        q = g.query(0)
        cx.out["evaluations"] += 1
        cx.count("misc.debug_json")
        try:
            st = Context().evaluate(q)
            want = (st.metadata.get("query"), st.metadata.get("status"), bool(st.is_error), st.metadata.get("type_identifier"))
        except Exception:
            want = None
        try:
            r = client.get("/liquer/api/debug-json/" + quote(q))
            gj = r.get_json(silent=True) if 200 <= r.status_code < 300 else None
        except Exception:
            gj = None
        if want is not None:
            have = None if gj is None else (gj.get("query"), gj.get("status"), bool(gj.get("is_error")), gj.get("type_identifier"))
            if have != want:
                cx.viol("debug-json differs from the evaluation's metadata", "query %r: service %r library %r" % (q, have, want), {"kind": "misc"})


def run_shard(spec):
    cx = Ctx(spec)
    kind = spec.get("kind")
    if "replay" in spec:
        kind = spec["replay"].get("kind")
    {"queries": part_queries, "cache_api": part_cache, "store_api": part_store, "registration": part_registration,
     "remote_store": part_remote_store, "misc": part_misc}[kind](cx)
    out = cx.out
    if not out["samples"]:
        out["samples"].append({"part": kind, "requests": out["evaluations"]})
    out["nontrivial"] = sorted(out["nontrivial"])
    out["violations"] = [v for lst in out["violations"].values() for v in lst]
    return out


def replay(spec):
    return run_shard(spec)


def finalize(m, tier, seed):
    inc = []
    for k in ("queries", "failing_queries", "with_extension", "with_url_arguments", "with_json_body", "cache.post_meta", "cache.remove",
              "store.post_data", "store.removedir", "store.keys", "registration.GET", "registration.POST", "remote.store",
              "remote.contains", "misc.upload", "misc.build", "misc.debug_json", "misc.commands"):
        if not m["counters"].get(k):
            inc.append("coverage class %s empty" % k)
    return {"inconclusive": inc}
