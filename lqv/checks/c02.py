"""C02 - canonical query text is a fixed point of parsing and encoding.

Monitor: icontract post-condition on the real ``liquer.parser.parse`` (rebound in every module that
imported it): for every accepted text, c = result.encode() must be accepted by the parser, parse to
the same position-free structure, and re-encode to c.
Workload: bounded-exhaustive token sequences, random sentences of the documented grammar, single-edit
mutations of accepted sentences.
"""
import itertools
import random

PROPERTY = "C02"
LEVEL = "exploration"
RULE = ("texts = all concatenations of up to L symbols of a 29-symbol token alphabet (exhaustive; L=3 quick, 4 thorough) + "
        "seeded random sentences of the documented grammar (headers of level 1-3, -R headers, resource paths, links nested "
        "to depth 3, file names, leading '/', embedded blanks) + single-character edits of accepted sentences. "
        "Evaluations = texts offered to parse; a case is non-trivial when it is accepted AND (not already canonical, or "
        "contains a link, a header or a resource segment); distinct = distinct accepted texts.")
ASSUMPTIONS = ["structure comparison ignores positions only", "pyparsing as shipped"]
SHARD_TIMEOUT = {"quick": 900, "thorough": 5400}

SYMBOLS = ["a", "ab", "ns", "-", "--", "/", "~~", "~_", "~I", "~/", "~h", "~X~", "~E", "~1", "%41", "%2F", "%25", "%0A",
           ".", "..", "a.b", "-R", "R", "x", "A", "_", "+", " ", "1"]


def shards(tier, seed):
    out = []
    L = 3 if tier == "quick" else 4
    m = 12 if tier == "quick" else 48
    for k in range(m):
        out.append({"kind": "tokens", "L": L, "part": k, "parts": m})
    m = 12 if tier == "quick" else 48
    per = 3000 if tier == "quick" else 14000
    for k in range(m):
        out.append({"kind": "grammar", "n": per, "part": k})
    if tier == "thorough":
        out.append({"kind": "under_tests"})
    return out


# --------------------------------------------------------------------------
# grammar-directed generator


class Gen:
    def __init__(self, rnd):
        self.r = rnd

    def ident(self):
        return self.r.choice(["a", "ab", "ns", "dr", "x_1", "f", "cmd", "aB9", "_u", "r", "rx"])

    def text(self):
        r = self.r
        n = r.choice([0, 1, 1, 2, 3])
        atoms = ["a", "B", "9", "_", "+", ".", "x.y", "~~", "~_", "~I", "~/", "~h", "~H", "~f", "~P", "~.", "~1", "~9",
                 "%41", "%2F", "%2f", "%25", "%7E", "%20", "%C3%A9", "R", "E", "X", "%0A", "%09", "%0D%0A", "%00",
                 # scheme names in front of '://' (only some have an entity of their own), '+' and quote characters
                 "ftp~P", "sftp%3A%2F%2F", "s3~P", "ftp%3A//x", "%2B", "a%2Bb", "%27", "%21", "%2A", "%28%29"]
        return "".join(r.choice(atoms) for _ in range(n))

    def param(self, depth):
        r = self.r
        if depth < 3 and r.random() < 0.18:
            return "~X~" + self.query(depth + 1) + "~E"
        return self.text()

    def params(self, depth):
        r = self.r
        n = r.choice([0, 0, 1, 1, 2, 3])
        return "".join("-" + self.param(depth) for _ in range(n))

    def action(self, depth):
        return self.ident() + self.params(depth)

    def filename(self):
        r = self.r
        return r.choice(["", "a", "file", "x_1", "9"]) + "." + r.choice(["", "txt", "tar.gz", "a-b", "json", "x_y", "."])

    def action_path(self, depth):
        r = self.r
        n = r.choice([0, 1, 1, 2, 3])
        parts = [self.action(depth) for _ in range(n)]
        if r.random() < 0.3 or not parts:
            parts.append(self.filename())
        return "/".join(parts)

    def header(self, depth):
        r = self.r
        lvl = "-" * r.choice([1, 1, 1, 2, 3])
        name = r.choice(["", "", "q", "ns", "meta", "aB_1"])
        if name == "":
            return lvl  # must be followed by '/'
        return lvl + name + self.params(depth)

    def rname(self):
        r = self.r
        return r.choice(["a", "b", "dir", "x.y", ".", "..", "file.txt", "A-b", "_u", "9", "a%41", ".hidden", "x-"])

    def rpath(self):
        r = self.r
        return "/".join(self.rname() for _ in range(r.choice([1, 1, 2, 3])))

    def rheader(self, depth):
        r = self.r
        return "-" * r.choice([1, 1, 2]) + "R" + r.choice(["", "", "x", "Ab_1", "meta"]) + self.params(depth)

    def segment(self, depth):
        r = self.r
        k = r.random()
        if k < 0.35:
            return self.action_path(depth)
        if k < 0.75:
            h = self.header(depth)
            if r.random() < 0.8 or h.strip("-") == "":
                return h + "/" + self.action_path(depth)
            return h
        h = self.rheader(depth)
        if r.random() < 0.75:
            return h + "/" + self.rpath()
        return h

    def query(self, depth=0):
        r = self.r
        lead = "/" if r.random() < 0.2 else ""
        if r.random() < 0.2:
            # resource path + segment with header
            return lead + self.rpath() + "/" + self.header(depth) + "/" + self.action_path(depth)
        n = r.choice([1, 1, 1, 2, 2, 3])
        return lead + "/".join(self.segment(depth) for _ in range(n))

    def blanks(self, s):
        r = self.r
        if r.random() < 0.06 and s:
            i = r.randrange(len(s) + 1)
            return s[:i] + " " + s[i:]
        return s

    def mutate(self, s):
        r = self.r
        if not s:
            return s
        i = r.randrange(len(s))
        c = r.choice(["/", "-", "~", "%", ".", "R", "E", "X", "a", "_", " ", "+"])
        k = r.random()
        if k < 0.34:
            return s[:i] + c + s[i:]
        if k < 0.67:
            return s[:i] + s[i + 1:]
        return s[:i] + c + s[i + 1:]


# --------------------------------------------------------------------------
# the contract


def compare_queries(q1, q2):
    """Set of difference kinds between two parsed queries: 'ambiguity' for the one known mechanism
    (a leading headerless transform segment whose canonical text the grammar reads as a resource path),
    'other' for everything else.  Empty set = structurally identical."""
    from liquer.parser import TransformQuerySegment, ResourceQuerySegment, LinkActionParameter
    from lqv import qstruct

    diffs = set()
    if bool(q1.absolute) != bool(q2.absolute):
        return {"other"}
    segs1, segs2 = list(q1.segments), list(q2.segments)
    if (segs1 and segs2 and isinstance(segs1[0], TransformQuerySegment) and segs1[0].header is None
            and isinstance(segs2[0], ResourceQuerySegment) and segs2[0].header is None):
        # k leading headerless transform segments (a file name ends a segment) read as one resource path
        for k in range(1, len(segs1)):
            if all(isinstance(x, TransformQuerySegment) and x.header is None for x in segs1[:k]) and \
                    "/".join(x.encode() for x in segs1[:k]) == segs2[0].path():
                diffs.add("ambiguity")
                segs1, segs2 = segs1[k:], segs2[1:]
                break
    if len(segs1) != len(segs2):
        return {"other"}
    for i, (s1, s2) in enumerate(zip(segs1, segs2)):
        if isinstance(s1, TransformQuerySegment) and isinstance(s2, TransformQuerySegment):
            if qstruct.header(s1.header) != qstruct.header(s2.header):
                diffs.add("other")
            f1 = None if s1.filename is None else str(s1.filename)
            f2 = None if s2.filename is None else str(s2.filename)
            if f1 != f2 or len(s1.query) != len(s2.query):
                diffs.add("other")
                continue
            for a1, a2 in zip(s1.query, s2.query):
                if a1.name != a2.name or len(a1.parameters) != len(a2.parameters):
                    diffs.add("other")
                    continue
                for p1, p2 in zip(a1.parameters, a2.parameters):
                    if isinstance(p1, LinkActionParameter) and isinstance(p2, LinkActionParameter):
                        diffs |= compare_queries(p1.link, p2.link)
                    elif qstruct.param(p1) != qstruct.param(p2):
                        diffs.add("other")
        elif isinstance(s1, ResourceQuerySegment) and isinstance(s2, ResourceQuerySegment):
            if qstruct.segment(s1) != qstruct.segment(s2):
                diffs.add("other")
        else:
            diffs.add("other")
    return diffs


def classify(result, err, r2):
    """Mechanism signature of a refuted fixed point, from observable structure only."""
    if err is not None:
        return "canonical_rejected"
    d = compare_queries(result, r2)
    if d == {"ambiguity"}:
        return "structure_differs|leading headerless transform segment whose canonical text is a valid resource path re-parses as resource+transform"
    if d:
        return "structure_differs"
    return "reencode_differs"


def install_contract(mon, on_accept=None):
    import liquer.parser as P
    from lqv import qstruct

    holder = {}

    def refute(text, result):
        raw = holder["raw"]
        c = result.encode()
        try:
            r2 = raw(c)
        except Exception as e:
            return {"text": text, "canonical": c, "sig": classify(result, e, None), "error": repr(e)[:160]}
        c2 = r2.encode()
        if qstruct.query(r2) != qstruct.query(result) or c2 != c:
            sig = classify(result, None, r2)
            if sig.startswith("structure_differs|leading headerless") and isinstance(text, str):
                # the listed ambiguity is about texts that are NOT resource queries as typed (e.g. 'abc-%41/-/x') but
                # whose canonical text is.  A text the resource grammar accepts as typed must have been read that way.
                from liquer.parser import ResourceQuerySegment

                try:
                    rt = P.resource_transform_query.parseString(text, True)[0]
                    if isinstance(rt.segments[0], ResourceQuerySegment) and not isinstance(result.segments[0], ResourceQuerySegment):
                        sig = "structure_differs|text accepted by the resource grammar as typed was read as a transformation"
                except Exception:
                    pass
            return {"text": text, "canonical": c, "recanonical": c2, "sig": sig}
        return None

    def independent_results(text, result):
        """parse is a function of the text: what a caller does to one result (queries are mutable and the library
        itself extends them in place) must not show in the next parse of the same text"""
        before = qstruct.query(result)
        raw = holder["raw"]
        try:
            victim = raw(text)
            segs = victim.segments
            if segs and hasattr(segs[-1], "query") and isinstance(segs[-1].query, list):
                segs[-1].query.append(segs[-1].query[-1] if segs[-1].query else None)
            victim.segments = list(segs) + list(segs[-1:])
            victim.absolute = not victim.absolute
            again = raw(text)
        except Exception:
            return None
        mon.counts["parse.independent_results"] = mon.counts.get("parse.independent_results", 0) + 1
        try:
            after = qstruct.query(again)
        except Exception:
            after = "unreadable"
        if after != before:
            return {"text": text, "canonical": None, "sig": "parse_results_share_state|a second parse of the same text shows what the caller did to the first result"}
        return None

    def canonical_fixed_point(query, result):
        raw = holder["raw"]
        if isinstance(query, str) and (hash(query) & 15) == 3:
            w0 = independent_results(query, result)
            if w0 is not None:
                return w0
        if on_accept is not None:
            on_accept(query, result.encode(), qstruct.query(result))
        w = refute(query, result)
        if w is not None and isinstance(query, str) and any(ch.isspace() for ch in query):
            # pyparsing skips blanks between tokens: is the refutation wholly due to that?
            stripped = "".join(ch for ch in query if not ch.isspace())
            try:
                rs = raw(stripped)
            except Exception:
                rs = None
            ws = None if rs is None else refute(stripped, rs)
            if ws is None:
                w["sig"] = "whitespace|blanks skipped between tokens make the as-typed text tokenise differently from its blank-free canonical text"
            else:
                w = ws
        return w

    holder["raw"] = mon.install(P, "parse", [("parse.canonical_fixed_point", canonical_fixed_point)])
    return holder["raw"]


def is_nontrivial(text, c, st):
    if text != c:
        return True

    def rich(s):
        for seg in s[2]:
            if seg[0] == "R" or seg[1] is not None:
                return True
            for a in seg[2]:
                if any(p[0] == "l" for p in a[1]):
                    return True
        return False

    return rich(st)


NON_NFC_TEXTS = ["title-cafe%CC%81", "a-%E2%84%AB", "-ns-e%CC%81/x-%E1%84%80%E1%85%A1", "-R-e%CC%81/p/-/dr-%E2%84%AB",
                 "a-~X~b-e%CC%81~E/c", "p/q/-/w-%EF%AC%81-A%CC%8A"]


def texts(spec):
    kind = spec["kind"]
    if kind == "tokens":
        idx = 0
        for L in range(1, spec["L"] + 1):
            for combo in itertools.product(SYMBOLS, repeat=L):
                if idx % spec["parts"] == spec["part"]:
                    yield "".join(combo)
                idx += 1
    elif kind == "grammar":
        rnd = random.Random("%s/C02/%s" % (spec["seed"], spec["part"]))
        g = Gen(rnd)
        if spec["part"] == 0:
            # fixed texts first (they do not consume the random stream): arguments that are not in Unicode
            # normalisation form C - an encoder that normalises spells another string than the parser read
            for s in NON_NFC_TEXTS:
                yield s
        for _ in range(spec["n"]):
            s = g.blanks(g.query())
            yield s
            if rnd.random() < 0.5:
                yield g.mutate(s)
    elif kind == "replay":
        yield spec["text"]


def run_shard(spec):
    import hashlib
    from lqv.mon.contracts import Monitor, ContractRefuted
    import liquer.parser as P

    if spec.get("kind") == "under_tests":
        from lqv import undertests

        r = undertests.run("C02", spec["scratch"])
        if r is None:
            return {"evaluations": 0, "inconclusive": ["test-suite run with contracts did not finish"]}
        v = [{"sig": "C02|under the repository's tests|" + (x["witness"] or {}).get("sig", "?"),
              "what": "contract refuted while the repository's own tests ran: %r" % (x["witness"],),
              "witness": {"text": (x["witness"] or {}).get("text")}} for x in r["records"][:5]]
        return {"evaluations": r["counts"].get("parse.canonical_fixed_point", 0), "violations": v,
                "counters": {"contract_evals_under_repo_tests": r["counts"].get("parse.canonical_fixed_point", 0)}}
    mon = Monitor("raise")
    accepted = {"n": 0}
    nontrivial = set()
    samples = []
    features = {}

    def on_accept(text, c, st):
        accepted["n"] += 1
        if is_nontrivial(text, c, st):
            nontrivial.add(hashlib.sha1(text.encode("utf-8", "surrogatepass")).hexdigest()[:12])
        flat = repr(st)
        for name, probe in (("link", "'l'"), ("resource_segment", "'R'"), ("absolute", "['Q', True"),
                            ("header", "[1, '"), ("header_l2", "[2, '"), ("header_l3", "[3, '")):
            if probe in flat:
                features[name] = features.get(name, 0) + 1
        if text != c:
            features["noncanonical"] = features.get("noncanonical", 0) + 1
        if len(samples) < 3 and accepted["n"] % 211 == 7:
            samples.append({"text": text, "canonical": c})

    install_contract(mon, on_accept)
    violations = {}
    evaluations = 0
    for t in texts(spec):
        evaluations += 1
        try:
            P.parse(t)
        except ContractRefuted as e:
            w = e.witness
            sig = "C02|" + w["sig"]
            lst = violations.setdefault(sig, [])
            if len(lst) < 3:
                lst.append({"sig": sig, "what": "text %r -> canonical %r: %s" % (w["text"], w["canonical"], w.get("error") or ("re-parses as %r" % w.get("recanonical"))),
                            "witness": {"text": w["text"]}})
        except Exception:
            pass  # rejected text: outside the quantifier
    counters = {"accepted": accepted["n"], "contract_evals.parse": mon.counts.get("parse.canonical_fixed_point", 0)}
    for k, v in features.items():
        counters["feature." + k] = v
    return {"evaluations": evaluations, "nontrivial": sorted(nontrivial),
            "violations": [v for lst in violations.values() for v in lst], "counters": counters,
            "samples": samples, "inconclusive": []}


def replay(spec):
    return run_shard(dict(spec, kind="replay", text=spec["replay"]["text"]))


def finalize(m, tier, seed):
    inc = []
    for k in ("contract_evals.parse", "feature.link", "feature.resource_segment", "feature.header_l2", "feature.noncanonical",
              "feature.absolute"):
        if not m["counters"].get(k):
            inc.append("coverage class %s empty" % k)
    return {"exhaustive": True,
            "exhaustive_subspaces": ["all concatenations of <= %d symbols of %r" % (3 if tier == "quick" else 4, SYMBOLS)],
            "inconclusive": inc}
