"""C17 - access boundaries: read-only views refuse writes; directory stores stay in their root.

(a) differential + snapshot monitor over histories through store.read_only(): every mutator of the Store interface
    (incl. openbin in a write mode and mount) must raise ReadOnlyStoreException and leave the raw snapshot of the
    underlying store unchanged; every read through the view must equal the read on the underlying store, also after
    the underlying store was changed directly.
(b) path-boundary monitor (enforcing audit hook + os.stat/os.lstat wrappers) around every operation of a directory
    store that sits beside sentinel files, for keys built from '.', '..', '', '__metadata__', names and a leading '/',
    reached directly, through one- and two-level mounts and through the resource part of queries: no file-system event
    may touch a path outside the store root; sentinels must not be returned or changed.
The workload is destructive by nature: the hook *blocks* every mutating event outside the root (the attempt is the
observation) and everything outside the per-case box; absolute keys only ever point into the box.
"""
import itertools
import os
import random
import threading

PROPERTY = "C17"
LEVEL = "exploration"
RULE = ("(a) seeded well-formed histories on 8 store configurations, each step followed by every mutator through the "
        "read-only view and through an indexer stacked above the view (must be refused, snapshot unchanged) and every read through the view compared with the underlying "
        "store; (b) all keys of depth <= D over components {a, b.txt, ., .., '', __metadata__} with and without leading '/' "
        "(exhaustive: D=3 quick, 4 thorough) plus absolute keys pointing into the box x 13 store operations x routes "
        "{direct, direct with a relative root ('.', '', '../root'), one-level mount, two-level mount, resource query}, half of the cases after ordinary use of the store and after other directory stores of the process read the same key where it is legal for them. Evaluations = operations monitored; non-trivial = key "
        "contains '..', '', a leading '/' or the metadata folder name, or a mutator through the view; distinct = distinct "
        "(route, operation, key) / (configuration, history step, mutator).")
ASSUMPTIONS = ["symbolic links are not part of the workload", "the box lives on /dev/shm; nothing outside it is ever addressed"]
SHARD_TIMEOUT = {"quick": 900, "thorough": 5400}

COMPONENTS = ["a", "b.txt", ".", "..", "", "__metadata__"]
RO_CONFIGS = ["memory", "file", "proxy(file)", "indexer(memory)", "overlay(file|empty)", "mountdefault(file)", "mounted(memory)", "global(file)"]
OPS = ["get_bytes", "get_metadata", "contains", "is_dir", "listdir", "store", "store_metadata", "remove", "removedir",
       "removedir_recursive", "makedir", "openbin_r", "openbin_w"]


def shards(tier, seed):
    out = []
    for cfg in RO_CONFIGS:
        out.append({"kind": "readonly", "cfg": cfg, "n": 25 if tier == "quick" else 120})
    m = 8 if tier == "quick" else 24
    for k in range(m):
        out.append({"kind": "boundary", "part": k, "parts": m, "depth": 3 if tier == "quick" else 4,
                    "sample": 1.0})
    return out


# ---------------------------------------------------------------------------------
# (b) path-boundary monitor

_B = {"active": False, "root": None, "box": None, "events": [], "installed": False, "tls": threading.local()}
_MUT = {"os.remove", "os.rmdir", "os.mkdir", "os.rename", "os.truncate", "os.chmod", "shutil.rmtree", "os.link", "os.symlink"}
_READ = {"os.listdir", "os.scandir"}


class BoundaryEscape(PermissionError):
    pass


def _resolve(p):
    try:
        return os.path.normpath(os.path.join(os.getcwd(), os.fsdecode(p)))
    except Exception:
        return None


def _in(path, root):
    return path == root or path.startswith(root + os.sep)


def _bhook(event, args):
    if not _B["active"]:
        return
    paths = []
    mutating = False
    if event == "open":
        p, mode, flags = (list(args) + [None, None, None])[:3]
        if isinstance(p, int):
            return
        paths = [p]
        mutating = bool(flags is not None and (flags & (os.O_WRONLY | os.O_RDWR | os.O_CREAT | os.O_TRUNC | os.O_APPEND)))
    elif event in _MUT:
        paths = [a for a in args[:2] if isinstance(a, (str, bytes, os.PathLike))]
        if event in ("os.remove", "os.rmdir", "os.mkdir") and isinstance(args[-1], int) and not isinstance(args[-1], bool) \
                and args[-1] >= 0 and len(args) >= 2 and (event != "os.mkdir" or len(args) == 3):
            try:
                base = os.readlink("/proc/self/fd/%d" % args[-1])
                paths = [os.path.join(base, os.fsdecode(p)) for p in paths]
            except OSError:
                pass
        mutating = True
    elif event in _READ:
        paths = [a for a in args[:1] if isinstance(a, (str, bytes, os.PathLike))]
    else:
        return
    for p in paths:
        rp = _resolve(p)
        if rp is None or "__pycache__" in rp:
            continue
        if not _in(rp, _B["root"]):
            if event == "os.mkdir" and _B["root"].startswith(rp + os.sep):
                continue  # mkdir(exist_ok) of an ancestor of the root: it exists by construction, nothing can change
            if not mutating and not _in(rp, _B["box"]) and _is_code_path(rp):
                continue  # the interpreter loading code / formatting tracebacks: not store I/O
            _B["events"].append((event + (":write" if mutating and event == "open" else ""), rp))
            if mutating or not _in(rp, _B["box"]):
                raise BoundaryEscape("lqv boundary: %s outside store root: %s" % (event, rp))


_CODE_PREFIXES = ("/usr/", "/venv/", "/repo/", "/verif/", "/opt/", "/proc/", "/lib", "/etc/localtime", "/tmp/lqmut_")


def _is_code_path(rp):
    import sys

    return rp.endswith((".py", ".pyc", ".so", ".pth")) or rp.startswith(_CODE_PREFIXES) or rp.startswith(sys.prefix + os.sep) \
        or rp.startswith(os.environ.get("LQV_REPO", "/repo") + os.sep)


def install_boundary():
    import sys

    if _B["installed"]:
        return
    sys.addaudithook(_bhook)
    real_stat, real_lstat = os.stat, os.lstat

    def wrap(fn, name):
        def w(path, *a, **k):
            r = fn(path, *a, **k)
            if _B["active"] and not isinstance(path, int):
                rp = _resolve(path)
                if rp is not None and not _in(rp, _B["root"]) and "__pycache__" not in rp and not (not _in(rp, _B["box"]) and _is_code_path(rp)) \
                        and not _B["root"].startswith(rp.rstrip(os.sep) + os.sep):  # ancestors of the root: path resolution
                    _B["events"].append((name + ":positive", rp))
            return r
        return w

    os.stat = wrap(real_stat, "os.stat")
    os.lstat = wrap(real_lstat, "os.lstat")
    _B["installed"] = True


class watching:
    def __init__(self, root, box):
        self.root, self.box = os.path.normpath(root), os.path.normpath(box)

    def __enter__(self):
        _B["root"], _B["box"], _B["events"] = self.root, self.box, []
        _B["active"] = True
        return self

    def __exit__(self, *exc):
        _B["active"] = False
        return False


def digest_tree(d, skip=None):
    import hashlib

    out = {}
    for dp, dn, fn in os.walk(d):
        if skip and (dp == skip or dp.startswith(skip + os.sep)):
            continue
        out[os.path.relpath(dp, d) + "/"] = None
        for f in fn:
            with open(os.path.join(dp, f), "rb") as fh:
                out[os.path.relpath(os.path.join(dp, f), d)] = hashlib.md5(fh.read()).hexdigest()
    return out


def make_box(scratch, n):
    import shutil

    box = os.path.join(scratch, "p1", "p2", "p3", "p4", "box%d" % n)
    shutil.rmtree(box, ignore_errors=True)
    os.makedirs(os.path.join(box, "root", "a"))
    os.makedirs(os.path.join(box, "root", "__metadata__"))
    os.makedirs(os.path.join(box, "sibling"))
    os.makedirs(os.path.join(box, "root_backup"))
    open(os.path.join(box, "root_backup", "s.txt"), "wb").write(b"SENTINEL-BACKUP")
    open(os.path.join(box, "rootx.txt"), "wb").write(b"SENTINEL-ROOTX")
    os.makedirs(os.path.join(box, "__metadata__"))
    for rel, data in (("outside.txt", b"SENTINEL-OUTSIDE"), ("sibling/s.txt", b"SENTINEL-SIBLING"), ("b.txt", b"SENTINEL-B"),
                      ("a", None), ("__metadata__/root.json", b'{"sentinel": "METADATA-OUTSIDE"}'),
                      ("__metadata__/b.txt.json", b'{"sentinel": "M2"}'),
                      ("root/a/in.txt", b"inside"), ("root/b.txt", b"inside-b"), ("root/__metadata__/b.txt.json", b"{}")):
        p = os.path.join(box, rel)
        if data is None:
            if not os.path.exists(p):
                open(p, "wb").write(b"SENTINEL-A")
        else:
            open(p, "wb").write(data)
    return box


def do_op(store, op, key):
    if op == "get_bytes":
        return store.get_bytes(key)
    if op == "get_metadata":
        return store.get_metadata(key)
    if op == "contains":
        return store.contains(key)
    if op == "is_dir":
        return store.is_dir(key)
    if op == "listdir":
        return store.listdir(key)
    if op == "store":
        return store.store(key, b"WRITTEN", {"x": 1})
    if op == "store_metadata":
        return store.store_metadata(key, {"x": 2})
    if op == "remove":
        return store.remove(key)
    if op == "removedir":
        return store.removedir(key)
    if op == "removedir_recursive":
        return store.removedir(key, recursive=True)
    if op == "makedir":
        return store.makedir(key)
    if op == "openbin_r":
        f = store.openbin(key, "r")
        try:
            return f.read() if f is not None else None
        finally:
            if f is not None:
                f.close()
    if op == "openbin_w":
        f = store.openbin(key, "w")
        try:
            if f is not None:
                f.write(b"WRITTEN")
        finally:
            if f is not None:
                f.close()
        return None


def boundary_keys(depth, part, parts, sample, rnd, box):
    idx = 0
    for d in range(1, depth + 1):
        for combo in itertools.product(COMPONENTS, repeat=d):
            for lead in ("", "/"):
                k = lead + "/".join(combo)
                if idx % parts == part and (sample >= 1.0 or rnd.random() < sample):
                    yield k
                idx += 1
    # siblings whose names share a textual prefix with the root directory's name
    for k in ("../root_backup/s.txt", "../root_backup", "../rootx.txt", "a/../../root_backup/s.txt", "../root_backup/new.txt"):
        if idx % parts == part:
            yield k
        idx += 1
    # absolute keys pointing into the box (never at real system paths)
    for rel in ("outside.txt", "sibling/s.txt", "sibling", "__metadata__/root.json", "root/../outside.txt"):
        if idx % parts == part:
            yield os.path.join(box, rel)
        idx += 1


def run_boundary(spec, out):
    from liquer.store import FileStore, MountPointStore, set_store
    from liquer.context import Context
    from lqv.mon import fence

    install_boundary()
    rnd = random.Random("%s/C17b/%s" % (spec["seed"], spec.get("part")))
    scratch = spec["scratch"]
    nbox = [0]

    def case(route, op, key, warm=None):
        if warm is None:
            warm = rnd.random() < 0.5
        nbox[0] += 1
        box = make_box(scratch, nbox[0] % 4)
        root = os.path.join(box, "root")
        fs = FileStore(root)
        if route == "direct_rel":
            # the same root addressed relative to the working directory (also as '.')
            os.chdir(root)
            fs = FileStore(rnd.choice([".", "", os.path.join("..", "root")]))
            st, k = fs, key
        elif route == "direct":
            st, k = fs, key
        elif route == "mount1":
            st = MountPointStore()
            st.mount("m", fs)
            k = "m/" + key
        elif route == "mount2":
            inner = MountPointStore()
            inner.mount("in", fs)
            st = MountPointStore()
            st.mount("out", inner)
            k = "out/in/" + key
        else:
            st = MountPointStore().with_indexer()
            st.mount("data", fs)
            k = "data/" + key
        if warm:
            # the store has been used for ordinary keys before (whatever it remembers about them must not open a way out)
            pre = k[: len(k) - len(key)]
            for f in (lambda: st.store(pre + "warm/new.txt", b"warm", {"x": 1}), lambda: st.contains(pre + "warm/new.txt"),
                      lambda: st.get_bytes(pre + "warm/new.txt"), lambda: st.listdir(pre + "warm"), lambda: st.store(pre + "top.txt", b"t", {}),
                      lambda: st.is_dir(pre + "warm"), lambda: st.get_metadata(pre + "top.txt")):
                try:
                    f()
                except Exception:
                    pass
            out["counters"]["warmed_up_cases"] = out["counters"].get("warmed_up_cases", 0) + 1
            # ... and other directory stores of the same process have read the very same key where it is legal for them
            # (it resolves inside their root): what one instance has learnt about a key says nothing about another root
            if not key.startswith("/"):
                for r2 in (os.path.join(box, "root_backup"), os.path.join(box, "sibling"), box, os.path.join(root, "a")):
                    p2 = os.path.normpath(os.path.join(r2, key))
                    if p2 == r2 or p2.startswith(r2 + os.sep):
                        other = FileStore(r2)
                        for f in (other.contains, other.is_dir, other.get_bytes):
                            try:
                                f(key)
                            except Exception:
                                pass
                        out["counters"]["other_instance_warmups"] = out["counters"].get("other_instance_warmups", 0) + 1
        before = digest_tree(box, skip=root)
        res, exc = None, None
        with watching(root, scratch):
            try:
                if route == "query":
                    set_store(st)
                    q = "-R/" + k
                    s = Context().evaluate(q)
                    res = None if s.is_error else s.get()
                else:
                    res = do_op(st, op, k)
            except BaseException as e:
                exc = e
            finally:
                if route == "direct_rel":
                    os.chdir(scratch)
            events = list(_B["events"])
        out["evaluations"] += 1
        out["counters"]["route." + route] = out["counters"].get("route." + route, 0) + 1
        out["counters"]["op." + op] = out["counters"].get("op." + op, 0) + 1
        if any(c in ("..", "", "__metadata__") for c in key.split("/")) or key.startswith("/"):
            out["nontrivial"].add("%s|%s|%s" % (route, op, key))
        w = {"kind": "boundary", "route": route, "op": op, "key": key, "warm": bool(warm)}
        after = digest_tree(box, skip=root)

        def viol(kind, detail):
            sig = "C17|directory store|%s" % kind
            lst = out["violations"].setdefault(sig, [])
            if len(lst) < 3:
                lst.append({"sig": sig, "what": "%s %s(%r): %s" % (route, op, key, detail), "witness": w})

        if events:
            kinds = sorted(set(e for e, _p in events))
            viol("file-system event outside the store root (%s)" % ("mutating" if any(e in _MUT or e.endswith(":write") for e in kinds) else "read/list/stat"),
                 "events %r" % events[:4])
        if after != before:
            viol("files outside the store root changed", "changed: %r" % sorted(k2 for k2 in set(before) | set(after) if before.get(k2) != after.get(k2))[:4])
        if isinstance(res, (bytes, str)) and b"SENTINEL" in (res if isinstance(res, bytes) else res.encode()):
            viol("sentinel content returned", repr(res)[:60])
        if isinstance(res, dict) and res.get("sentinel"):
            viol("sentinel content returned", repr(res)[:60])

    if "replay" in spec:
        w = spec["replay"]
        case(w["route"], w["op"], w["key"], warm=w.get("warm", False))
        return
    box0 = os.path.join(scratch, "p1", "p2", "p3", "p4", "box0")
    for key in boundary_keys(spec["depth"], spec["part"], spec["parts"], spec["sample"], rnd, box0):
        abs_key = key.startswith(scratch)
        for op in OPS:
            if rnd.random() < (0.5 if spec["sample"] < 1 else 1.0):
                r = rnd.choice(["direct", "direct", "mount1", "mount2", "direct_rel"])
                k = key
                if abs_key:
                    # rebuild the absolute key for the box the case will use
                    k = key.replace(box0, os.path.join(scratch, "p1", "p2", "p3", "p4", "box%d" % ((nbox[0] + 1) % 4)))
                case(r, op, k)
        # resource-query route (keys the grammar accepts only)
        if not key.startswith("/") and "" not in key.split("/") and not abs_key and rnd.random() < 0.5:
            case("query", "get_bytes", key)


# ---------------------------------------------------------------------------------
# (a) read-only views


def run_readonly(spec, out):
    from liquer.store import ReadOnlyStoreException
    from lqv import storecfg
    from lqv.models import storemodel as SM
    from lqv.checks.c07 import UNIVERSE

    scratch = spec["scratch"]

    mode_rnd = random.Random("modes")

    def rnd_mode():
        return mode_rnd.choice(["r+b", "rb+", "r+", "w+b", "a+b", "xb"])

    def one_history(cfg, hist):
        built = storecfg.build(cfg, scratch)
        try:
            under = built.store
            view = under.read_only()
            model = SM.StoreModel(pinned=built.pinned)
            uni = [built.prefix + k for k in UNIVERSE]
            for step, op in enumerate(hist):
                if not model.can(op):
                    continue
                model.apply(op)
                SM.apply_real(under, op)
                out["evaluations"] += 1
                w = {"kind": "readonly", "cfg": cfg, "history": [SM.op_to_json(o) for o in hist[:step + 1]]}

                def viol(kind, detail):
                    sig = "C17|read-only view|%s" % kind
                    lst = out["violations"].setdefault(sig, [])
                    if len(lst) < 3:
                        lst.append({"sig": sig, "what": "%s after %r: %s" % (cfg, [SM.op_to_json(o)[:2] for o in hist[:step + 1]][-4:], detail), "witness": w})

                # every mutator through the view
                snap = storecfg.snapshot(built)
                k_file = next((k for k in uni if k in model.files), uni[0])
                k_new = next((k for k in uni if not model.exists(k)), uni[-1])
                k_dir = next((k for k in uni if k in model.dirs), uni[0])
                muts = [
                    ("store", lambda: view.store(k_new, b"RO", {"x": 1})),
                    ("store_existing", lambda: view.store(k_file, b"RO", {"x": 1})),
                    ("store_metadata", lambda: view.store_metadata(k_file, {"x": 1})),
                    ("remove", lambda: view.remove(k_file)),
                    ("removedir", lambda: view.removedir(k_dir)),
                    ("removedir_recursive", lambda: view.removedir(k_dir, recursive=True)),
                    ("makedir", lambda: view.makedir(k_new)),
                    ("makedir_existing", lambda: view.makedir(k_dir)),
                    ("makedir_root", lambda: view.makedir("")),
                    ("store_metadata_dir", lambda: view.store_metadata(k_dir, {"x": 1})),
                    ("store_metadata_new", lambda: view.store_metadata(k_new, {"x": 1})),
                    ("remove_absent", lambda: view.remove(k_new)),
                    ("removedir_absent", lambda: view.removedir(k_new)),
                    ("openbin_w", lambda: _write_through(view, k_new)),
                    ("openbin_wb_existing", lambda: _write_through(view, k_file, "wb")),
                    ("openbin_update_existing", lambda: _write_through(view, k_file, rnd_mode())),
                    ("openbin_append", lambda: _write_through(view, k_file, "ab")),
                    ("mount_then_store", lambda: _mount_then_store(view, k_new)),
                    # wrappers stacked above the view (an indexer, as for the served stores) must not find a way round it;
                    # for these any refusal is accepted, what counts is that the underlying store stays as it is
                    ("indexer_over_view_store", lambda: view.with_indexer().store(k_new, b"RO", {"x": 1})),
                    ("indexer_over_view_store_existing", lambda: view.with_indexer().store(k_file, b"RO", {"x": 1})),
                    ("indexer_over_view_store_metadata", lambda: view.with_indexer().store_metadata(k_file, {"x": 1})),
                    ("indexer_over_view_remove", lambda: view.with_indexer().remove(k_file)),
                    ("indexer_over_view_makedir", lambda: view.with_indexer().makedir(k_new)),
                    ("indexer_over_view_openbin_w", lambda: _write_through(view.with_indexer(), k_new)),
                ]
                for name, fn in muts:
                    out["counters"]["mutator." + name] = out["counters"].get("mutator." + name, 0) + 1
                    out["nontrivial"].add("%s|%d|%s|%s" % (cfg, spec.get("hist_id", 0), step, name))
                    try:
                        fn()
                        viol("%s not refused" % name, "no exception")
                    except ReadOnlyStoreException:
                        pass
                    except Exception as e:
                        # refused, but not with the read-only error
                        if name not in ("mount_then_store",) and not name.startswith("indexer_over_view"):
                            viol("%s refused with another error" % name, "%s: %r" % (type(e).__name__, str(e)[:100]))
                    now = storecfg.snapshot(built)
                    if now != snap:
                        viol("%s changed the underlying store" % name, storecfg.diff_snap(snap, now))
                        snap = now
                        # bring the model back in line is not possible: stop this history
                        return
                # every read through the view equals the read on the underlying store - and leaves it as it is
                snap_reads = storecfg.snapshot(built)
                missing_nested = "zz_missing/deeper/x.csv"
                for k in [""] + uni + [built.prefix + missing_nested]:
                    for rname, rf in (("get_bytes", lambda s: s.get_bytes(k)), ("get_metadata", lambda s: _strip(s.get_metadata(k))),
                                      ("contains", lambda s: bool(s.contains(k))), ("is_dir", lambda s: bool(s.is_dir(k))),
                                      ("listdir", lambda s: _exact_listing(s.listdir(k))), ("keys", lambda s: sorted(s.keys())),
                                      ("openbin_r", lambda s: _read_through(s, k))):
                        out["counters"]["reads_compared"] = out["counters"].get("reads_compared", 0) + 1
                        a = _try(rf, under)
                        b = _try(rf, view)
                        if a != b:
                            viol("%s differs from the underlying store" % rname, "key %r: underlying %r, view %r" % (k, a, b))
                now = storecfg.snapshot(built)
                if now != snap_reads:
                    viol("a read through the view changed the underlying store", storecfg.diff_snap(snap_reads, now))
                    return
        finally:
            built.close()

    if "replay" in spec:
        w = spec["replay"]
        one_history(w["cfg"], [SM.op_from_json(o) for o in w["history"]])
        return
    cfg = spec["cfg"]
    rnd = random.Random("%s/C17a/%s" % (spec["seed"], cfg))
    b0 = storecfg.build(cfg, scratch)
    prefix, pinned = b0.prefix, b0.pinned
    b0.close()
    for h in range(spec["n"]):
        spec["hist_id"] = h
        model = SM.StoreModel(pinned=pinned)
        hist = SM.gen_history(rnd, model, [prefix + k for k in UNIVERSE], rnd.randint(4, 10))
        one_history(cfg, hist)


def _exact_listing(r):
    """exactly what was returned: 'nothing' (None, e.g. for a key that is no directory) is not an empty listing"""
    return None if r is None else sorted(r)


def _strip(md):
    if isinstance(md, dict):
        return {k: v for k, v in md.items() if k not in ("updated",)}
    return md


def _try(f, s):
    try:
        return ("ok", f(s))
    except Exception as e:
        return ("raises", type(e).__name__)


def _write_through(view, k, mode="w"):
    f = view.openbin(k, mode)
    try:
        f.write(b"RO-WRITE")
    finally:
        f.close()


def _read_through(s, k):
    f = s.openbin(k, "r")
    try:
        return f.read()
    finally:
        f.close()


def _mount_then_store(view, k):
    from liquer.store import MemoryStore

    m = view.mount("zz_scratch_mount", MemoryStore())
    try:
        m.store(k, b"RO-MOUNT", {"x": 1})
    finally:
        try:
            m.umount("zz_scratch_mount")
        except Exception:
            pass


def run_shard(spec):
    out = {"evaluations": 0, "nontrivial": set(), "violations": {}, "counters": {}, "samples": [], "inconclusive": []}
    kind = spec.get("kind")
    if "replay" in spec:
        kind = spec["replay"].get("kind")
    if kind == "readonly":
        run_readonly(spec, out)
        out["samples"].append({"part": "read-only view", "cfg": spec.get("cfg")})
    else:
        run_boundary(spec, out)
        out["samples"].append({"part": "directory store boundary", "keys": "depth<=%s part %s" % (spec.get("depth"), spec.get("part"))})
    out["nontrivial"] = sorted(out["nontrivial"])[:200000]
    out["violations"] = [v for lst in out["violations"].values() for v in lst]
    return out


def replay(spec):
    return run_shard(spec)


def finalize(m, tier, seed):
    inc = []
    for k in ("route.direct", "route.direct_rel", "route.mount1", "route.mount2", "route.query", "mutator.openbin_update_existing", "mutator.openbin_w", "mutator.store", "reads_compared",
              "op.removedir_recursive", "op.openbin_w"):
        if not m["counters"].get(k):
            inc.append("coverage class %s empty" % k)
    return {"inconclusive": inc, "exhaustive": True,
            "exhaustive_subspaces": ["all keys of depth <= %d over %r with/without leading '/' x 13 operations" % (3 if tier == "quick" else 4, COMPONENTS)]}
