"""C11 - state types serialize and deserialize losslessly.

Monitors: icontract post-conditions on the real ``encode_state_data`` (decode-back equality, same type, the recorded
type identifier selects a decoder that accepts the bytes) and ``copy_state_data`` (equality + aliasing walker: no mutable
object reachable from both the original and the copy).  (type, extension) pairs are discovered at run time by probing
which extensions each registered type both writes and reads.
"""
import random

PROPERTY = "C11"
LEVEL = "exploration"
RULE = ("(type, extension) pairs probed at run time over all registered state types x all known extensions; per pair "
        "seeded values from the pair's documented domain: bytes; text (non-ASCII, control characters, empty, long); "
        "None/int/float (NaN, +-inf, huge); dictionaries with adversarial string keys (quotes, backslashes, control "
        "characters, empty, non-ASCII) whose members are JSON-shaped (json) or arbitrary picklable / registered-type "
        "objects (djson); arbitrary picklable objects (pickle); data frames with int/float/str/bool/datetime/categorical "
        "columns, missing values, empty frames, non-default index (pickle, parquet, feather). Every value also goes through "
        "copy_state_data. Evaluations = contract evaluations on values; non-trivial = value is a container or non-ASCII / "
        "non-finite; distinct = distinct (pair, value).")
ASSUMPTIONS = ["a value a non-default format cannot write (encode raises) is counted as unrepresentable, not as a violation",
               "csv/tsv/json/html renderings of data frames are documented lossy and outside the quantifier",
               "JSON domain excludes tuples and non-string keys"]
SHARD_TIMEOUT = {"quick": 900, "thorough": 5400}

LOSSY = {("dataframe", "csv"), ("dataframe", "tsv"), ("dataframe", "json"), ("dataframe", "html"), ("dataframe", "htm"),
         ("dataframe", "xlsx"), ("generic", "html"), ("generic", "htm"), ("pickle", "html"), ("pickle", "htm")}


def shards(tier, seed):
    m = 16 if tier == "quick" else 48
    n = 2500 if tier == "quick" else 12000
    out = [{"part": k, "n": n} for k in range(m)]
    # the same round trips after a user has registered state types of their own (for a built-in type that shares the
    # 'generic' state type with others, and for a class of their own)
    out += [{"part": 100 + k, "n": n // 2, "reregister": True} for k in range(2 if tier == "quick" else 6)]
    if tier == "thorough":
        out.append({"kind": "under_tests", "part": 0, "n": 0})
    return out


# ---------------------------------------------------------------------------------
# value generators

KEYS = ["k", "", "a b", 'q"uote', "back\\slash", "new\nline", "tab\t", "é€", "\x00nul", "k:v", "{", "'", "\\\"", "a,b", " ",
        "very" * 30, "K", "k1", "0", "-", "line\u2028sep", "next\x85line", "para\u2029graph"]


def json_scalar(rnd):
    return rnd.choice([None, 0, 1, -7, 10 ** 20, 0.5, -2.25, 1e300, float("inf"), float("-inf"), float("nan"), "", "s", "é€\n\"\\", True, False, "a\u2028b", "c\x85d\u2029"])


def json_shaped(rnd, depth=0):
    k = rnd.random()
    if depth >= 3 or k < 0.4:
        return json_scalar(rnd)
    if k < 0.7:
        return [json_shaped(rnd, depth + 1) for _ in range(rnd.randint(0, 3))]
    return {rnd.choice(KEYS): json_shaped(rnd, depth + 1) for _ in range(rnd.randint(0, 3))}


class Custom:
    def __init__(self, a):
        self.a = a

    def __eq__(self, o):
        return type(o) is Custom and o.a == self.a

    def __hash__(self):
        return 7


class MyStr(str):
    pass


class MyInt(int):
    pass


def subclass_instances(rnd):
    """instances of SUBCLASSES of the registered base types: they belong to the default (pickle) type"""
    import collections

    return rnd.choice([collections.Counter({"a": 2, 3: 1}), collections.OrderedDict([("z", 1), ("a", [2])]),
                       collections.defaultdict(list, {"k": [1]}), MyStr("sub"), MyInt(7), True, False])


def picklable(rnd, depth=0):
    if depth == 0 and rnd.random() < 0.15:
        return subclass_instances(rnd)
    k = rnd.random()
    if depth >= 3 or k < 0.3:
        return rnd.choice([json_scalar(rnd), b"by\x00\xff", (1, "t"), frozenset([1, 2]), complex(1, 2), Custom(3), range(3), 2 ** 70])
    if k < 0.5:
        return [picklable(rnd, depth + 1) for _ in range(rnd.randint(0, 3))]
    if k < 0.65:
        return tuple(picklable(rnd, depth + 1) for _ in range(rnd.randint(0, 3)))
    if k < 0.75:
        return {1, "a", (2, 3)}
    return {rnd.choice(KEYS + [1, (1, 2), None]): picklable(rnd, depth + 1) for _ in range(rnd.randint(0, 3))}


def frame(rnd, features, ext=None):
    import numpy as np
    import pandas as pd

    n = rnd.choice([0, 1, 3, 5])
    empty = n == 0
    if empty:
        n = 2  # typed columns, rows dropped below (an untyped empty column is not representable in columnar formats)
    cols = {}
    pool = ["int", "float", "str", "bool", "datetime", "cat", "nan", "strnone"]
    if empty:
        pool.remove("cat")  # arrow drops the categories of an empty categorical column (pandas/pyarrow, not liquer)
    kinds = rnd.sample(pool, rnd.randint(1, 4))
    for i, kd in enumerate(kinds):
        name = rnd.choice(["a", "b", "c d", "é", "col%d" % i, "x.y"]) + str(i)
        if kd == "int":
            cols[name] = [rnd.randint(-5, 5) for _ in range(n)]
        elif kd == "float":
            cols[name] = [rnd.choice([0.5, -1.25, 1e10]) for _ in range(n)]
        elif kd == "str":
            cols[name] = [rnd.choice(["x", "é€", "", "a,b\n"]) for _ in range(n)]
        elif kd == "bool":
            cols[name] = [rnd.random() < 0.5 for _ in range(n)]
        elif kd == "datetime":
            cols[name] = pd.to_datetime(["2020-01-0%d" % (1 + j % 8) for j in range(n)])
        elif kd == "cat":
            cols[name] = pd.Categorical([rnd.choice(["u", "v"]) for _ in range(n)])
        elif kd == "nan":
            cols[name] = [rnd.choice([1.5, float("nan")]) for _ in range(n)]
        elif kd == "strnone":
            cols[name] = [rnd.choice(["s", None]) for _ in range(n)]
    df = pd.DataFrame(cols)
    if empty:
        features.add("frame.empty")
        return df.iloc[0:0]
    if n and rnd.random() < 0.3:
        features.add("frame.non_default_index")
        df = df.iloc[::-1] if rnd.random() < 0.5 else df.set_index(pd.Index(["r%d" % j for j in range(n)], name="idx"))
    if ext in (None, "pickle", "pkl") and rnd.random() < 0.2 and len(df.columns):
        # column labels that are not text (numbers, tuples): only the pickling formats can carry them
        features.add("frame.non_text_labels")
        if rnd.random() < 0.5:
            df.columns = list(range(2000, 2000 + len(df.columns)))
        else:
            df.columns = pd.MultiIndex.from_tuples([("g%d" % (j % 2), j) for j in range(len(df.columns))])
    if rnd.random() < 0.1:
        features.add("frame.object_cells")
        df = pd.DataFrame({"o": [[1, 2], {"k": 1}][: max(1, min(n, 2))]})
    return df


def user_state_types():
    """two perfectly legal user-defined state types (what register_state_type is for)"""
    import liquer.state_types as ST

    class IntegerStateType(ST.StateType):
        def identifier(self):
            return "integer"

        def default_extension(self):
            return "txt"

        def default_filename(self):
            return "integer.txt"

        def default_mimetype(self):
            return "text/plain"

        def is_type_of(self, data):
            return isinstance(data, int)

        def as_bytes(self, data, extension=None):
            return str(data).encode("ascii"), "text/plain"

        def from_bytes(self, b, extension=None):
            return int(b.decode("ascii"))

        def copy(self, data):
            return data

        def data_characteristics(self, data):
            return dict(description="integer")

    class CustomStateType(IntegerStateType):
        def identifier(self):
            return "custom"

        def is_type_of(self, data):
            return isinstance(data, Custom)

        def as_bytes(self, data, extension=None):
            return repr(data.a).encode("ascii"), "text/plain"

        def from_bytes(self, b, extension=None):
            import ast

            return Custom(ast.literal_eval(b.decode("ascii")))

        def copy(self, data):
            return Custom(data.a)

    return {int: IntegerStateType(), Custom: CustomStateType()}


def gen_value(rnd, tid, ext, features):
    """value from the documented domain of (type identifier, extension)"""
    if tid == "integer":
        return rnd.choice([0, 1, -7, 2 ** 70, rnd.randrange(10 ** 6)])
    if tid == "custom":
        return Custom(rnd.choice([1, "s", 2.5]))
    if tid == "bytes":
        return rnd.choice([b"", b"\x00\xff\xfe", b"plain", bytes(range(256)), b"x" * 70000])
    if tid == "text":
        return rnd.choice(["", "plain", "é€  \n\r\t", "\x00", "a" * 5000, "{\"k\": 1}", "﻿bom"])
    if tid == "generic":
        return rnd.choice([None, 0, -1, 10 ** 30, 0.5, float("nan"), float("inf"), -0.0, 1e-320])
    if tid == "dictionary":
        if ext == "djson":
            d = {}
            for _ in range(rnd.randint(0, 4)):
                k = rnd.choice(KEYS)
                r = rnd.random()
                if r < 0.4:
                    d[k] = rnd.choice([None, 1, 2.5, "s", "é\"\\\n"])
                elif r < 0.6:
                    d[k] = rnd.choice([b"bytes\x00", [1, (2, 3)], {"n": {1, 2}}, (1, 2), Custom(1)])
                elif r < 0.8:
                    d[k] = json_shaped(rnd, 1) if rnd.random() < 0.5 else {"in": [1, 2]}
                else:
                    d[k] = frame(rnd, features)
            return d
        d = {}
        for _ in range(rnd.randint(0, 4)):
            d[rnd.choice(KEYS)] = json_shaped(rnd, 1)
        return d
    if tid == "pickle":
        if ext == "json":
            v = json_shaped(rnd, 0)
            return v if isinstance(v, list) else [v]
        v = picklable(rnd)
        if type(v) in (dict, str, bytes, int, float) or v is None:
            v = [v]
        return v
    if tid == "dataframe":
        return frame(rnd, features, ext)
    return None


# ---------------------------------------------------------------------------------
# aliasing walker


def mutable_ids(x, acc, depth=0, cell=False):
    import pandas as pd

    if depth > 6:
        return
    if isinstance(x, (list, dict, set, bytearray)):
        acc[id(x)] = ("cell:" if cell else "") + type(x).__name__
    if isinstance(x, dict):
        for k, v in x.items():
            mutable_ids(v, acc, depth + 1, cell)
    elif isinstance(x, (list, tuple, set, frozenset)):
        for v in x:
            mutable_ids(v, acc, depth + 1, cell)
    elif isinstance(x, pd.DataFrame):
        acc[id(x)] = "DataFrame"
        for c in x.columns:
            col = x[c]
            if col.dtype == object:
                for v in col.values:
                    mutable_ids(v, acc, depth + 1, True)
    elif hasattr(x, "__dict__") and not isinstance(x, type):
        acc[id(x)] = type(x).__name__
        for v in vars(x).values():
            mutable_ids(v, acc, depth + 1)


def shares_memory(a, b):
    import numpy as np
    import pandas as pd

    if isinstance(a, pd.DataFrame) and isinstance(b, pd.DataFrame):
        for c in a.columns:
            if c in b.columns:
                try:
                    x, y = a[c].to_numpy(copy=False), b[c].to_numpy(copy=False)
                    if x.dtype != object and x.size and np.shares_memory(x, y):
                        # shared buffers are only a defect if a write through one is visible in the other (copy-on-write
                        # frames may share until written); probe by writing to a copy of the structure is not possible
                        # without mutating: rely on pandas' own flag
                        if not getattr(pd.options.mode, "copy_on_write", True):
                            return str(c)
                except Exception:
                    pass
    return None


# ---------------------------------------------------------------------------------


def install_contracts(mon, features):
    import liquer.state_types as ST
    from lqv import refinterp as R

    raw_decode = ST.decode_state_data

    def encode_roundtrip(data, extension, result):
        b, mime, tid = result
        if not isinstance(b, bytes):
            return {"why": "encoded form is not bytes", "type": type(b).__name__}
        t = ST.state_types_registry().get(tid)
        if t is None or t.identifier() != tid:
            return {"why": "recorded type identifier does not select its own state type", "tid": tid}
        try:
            back = raw_decode(b, tid, extension)
        except Exception as e:
            return {"why": "decoder selected by the recorded identifier rejects the bytes", "tid": tid, "ext": extension, "error": repr(e)[:200],
                    "value": R.short(data)}
        if type(back) is not type(data):
            return {"why": "decoded value has another type", "tid": tid, "ext": extension, "want": type(data).__name__,
                    "got": type(back).__name__, "value": R.short(data)}
        if not R.equal(back, data):
            return {"why": "decoded value differs", "tid": tid, "ext": extension, "value": R.short(data, 200), "back": R.short(back, 200)}

    mon.install(ST, "encode_state_data", [("encode_state_data.lossless", encode_roundtrip)])

    def copy_independent(data, result):
        if not R.equal(result, data) or type(result) is not type(data):
            return {"why": "copy differs from the original", "value": R.short(data), "copy": R.short(result)}
        a, b = {}, {}
        mutable_ids(data, a)
        mutable_ids(result, b)
        common = [a[i] for i in a if i in b]
        if common:
            cells = all(c.startswith("cell:") for c in common)
            return {"why": "copy shares mutable structure with the original" + (" (object cells of a data frame)" if cells else ""),
                    "shared": sorted(set(common)), "value": R.short(data)}
        sm = shares_memory(data, result)
        if sm is not None:
            return {"why": "copy shares a numeric buffer with the original", "column": sm}

    mon.install(ST, "copy_state_data", [("copy_state_data.independent", copy_independent)])


def probe_pairs():
    """(type identifier, extension) pairs supported in both directions, probed on a sample of each type"""
    import liquer.state_types as ST
    from liquer.constants import MIMETYPES
    import pandas as pd

    reg = ST.state_types_registry()
    samples = {"bytes": b"b", "text": "t", "generic": 1, "dictionary": {"k": 1}, "pickle": [1], "dataframe": pd.DataFrame({"a": [1]})}
    types = {}
    for t in list(reg.state_types_dictionary.values()) + [reg.default_state_type]:
        types[t.identifier()] = t
    pairs = []
    exts = sorted(set(list(MIMETYPES.keys()) + ["pkl", "djson"]))
    for tid, t in sorted(types.items()):
        if tid not in samples:
            continue
        for ext in [None] + exts:
            try:
                b, mime = t.as_bytes(samples[tid], extension=ext)
                back = t.from_bytes(b, extension=ext)
                if back is None and samples[tid] is not None:
                    continue
            except BaseException:
                continue
            pairs.append((tid, ext))
    return pairs, types


def run_shard(spec):
    import hashlib
    import liquer.state_types as ST
    from lqv.mon.contracts import Monitor, ContractRefuted
    from lqv import refinterp as R, vocab

    if spec.get("kind") == "under_tests":
        from lqv import undertests

        r = undertests.run("C11", spec["scratch"])
        if r is None:
            return {"evaluations": 0, "inconclusive": ["test-suite run with contracts did not finish"]}
        known_types = {"bytes", "text", "generic", "dictionary", "pickle", "dataframe"}
        v = []
        for x in r["records"]:
            w = x["witness"] or {}
            if x["contract"].startswith("encode") and (w.get("tid") not in known_types or (w.get("tid"), w.get("ext")) in LOSSY):
                continue   # state types of optional extensions / documented lossy renderings: outside the quantifier
            if " object at 0x" in str(w.get("value", "")):
                continue   # instances of classes without structural equality cannot be compared
            if x["contract"].startswith("copy") and "object cells" in str(w.get("why")):
                continue
            if x["contract"].startswith("copy") and not any(t in str(w.get("value", ""))[:3] for t in ("DF", "{", "[", "'", "b'")):
                continue
            v.append({"sig": "C11|under the repository's tests|%s|%s" % (x["contract"], w.get("why")),
                      "what": "contract refuted while the repository's own tests ran: %r" % (w,), "witness": {"tid": "text", "ext": None, "vseed": 0}})
        n = sum(r["counts"].values())
        return {"evaluations": n, "violations": v[:5], "counters": {"contract_evals_under_repo_tests": n}}
    vocab.table()  # imports liquer.ext.lq_pandas: registers the data-frame state type
    features = set()
    mon = Monitor("raise")
    install_contracts(mon, features)
    rereg = bool(spec.get("reregister") or (spec.get("replay") or {}).get("reregister"))
    if rereg:
        for ty, st in user_state_types().items():
            ST.register_state_type(ty, st)
    pairs, types = probe_pairs()
    pairs = [p for p in pairs if p not in LOSSY]
    if rereg:
        for st in user_state_types().values():
            types[st.identifier()] = ST.state_types_registry().get(st.identifier())
            pairs.append((st.identifier(), None))
        counters_rereg = True
    violations = {}
    counters = {}
    nontrivial = set()
    samples = []
    evaluations = 0

    def viol(kind, what, witness):
        sig = "C11|" + kind
        lst = violations.setdefault(sig, [])
        if len(lst) < 3:
            lst.append({"sig": sig, "what": what[:1000], "witness": witness})

    def one(tid, ext, vseed):
        nonlocal evaluations
        rnd = random.Random(vseed)
        v = gen_value(rnd, tid, ext, features)
        t = types[tid]
        if ST.state_types_registry().get(ST.get_type_qualname(type(v))).identifier() != tid:
            counters["value_of_other_type"] = counters.get("value_of_other_type", 0) + 1
            return
        evaluations += 1
        counters["pair.%s.%s" % (tid, ext or "default")] = counters.get("pair.%s.%s" % (tid, ext or "default"), 0) + 1
        if isinstance(v, (list, dict, tuple, set)) or not isinstance(v, (int, type(None))):
            nontrivial.add(hashlib.sha1(repr((tid, ext, vseed)).encode()).hexdigest()[:12])
        w = {"tid": tid, "ext": ext, "vseed": vseed, "reregister": rereg}
        if rereg:
            counters["after_user_registration"] = counters.get("after_user_registration", 0) + 1
        is_default = ext is None or ext == t.default_extension()
        try:
            ST.encode_state_data(v, extension=ext)
        except ContractRefuted as e:
            ww = e.witness or {}
            viol("%s.%s|%s" % (tid, ext or "default", ww.get("why")), "%s/%s: %r" % (tid, ext, ww), w)
        except Exception as e:
            if is_default:
                viol("%s.default|encoding a value of the domain raises for the default format" % tid,
                     "%s/%s: value %s: %r" % (tid, ext, R.short(v), e), w)
            else:
                counters["unrepresentable.%s.%s" % (tid, ext)] = counters.get("unrepresentable.%s.%s" % (tid, ext), 0) + 1
        try:
            ST.copy_state_data(v)
        except ContractRefuted as e:
            ww = e.witness or {}
            if "object cells of a data frame" in str(ww.get("why")):
                viol("copy|%s" % ww.get("why"), "%s copy: %r" % (tid, ww), w)
            else:
                viol("%s.copy|%s" % (tid, ww.get("why")), "%s copy: %r" % (tid, ww), w)
        except Exception as e:
            viol("%s.copy|raises" % tid, "%s copy of %s raised %r" % (tid, R.short(v), e), w)
        if len(samples) < 3 and evaluations % 131 == 9:
            samples.append({"type": tid, "extension": ext, "value": R.short(v, 100)})

    if "replay" in spec:
        w = spec["replay"]
        one(w["tid"], w["ext"], w["vseed"])
    else:
        rnd = random.Random("%s/C11/%s" % (spec["seed"], spec["part"]))
        for i in range(spec["n"]):
            tid, ext = pairs[(i + spec["part"]) % len(pairs)]
            one(tid, ext, rnd.randrange(10 ** 9))
    for k, v in mon.counts.items():
        counters["contract_evals." + k] = v
    for f in features:
        counters["feature." + f] = counters.get("feature." + f, 0) + 1
    counters["pairs_probed"] = len(pairs)
    return {"evaluations": evaluations, "nontrivial": sorted(nontrivial),
            "violations": [v for lst in violations.values() for v in lst],
            "counters": counters, "samples": samples, "inconclusive": [],
            "sets": {"pairs": ["%s/%s" % (a, b or "default") for a, b in pairs]}}


def replay(spec):
    return run_shard(spec)


def finalize(m, tier, seed):
    inc = []
    for k in ("contract_evals.encode_state_data.lossless", "contract_evals.copy_state_data.independent",
              "pair.dataframe.parquet", "pair.dataframe.feather", "pair.dictionary.djson", "pair.dictionary.json",
              "pair.pickle.default", "pair.text.default", "pair.bytes.default", "pair.generic.default", "after_user_registration",
              "pair.integer.default", "pair.custom.default",
              "feature.frame.non_default_index", "feature.frame.empty"):
        if not m["counters"].get(k):
            inc.append("coverage class %s empty" % k)
    return {"inconclusive": inc, "pairs": sorted(m["sets"].get("pairs", []))}
