"""C13 - every cache back-end is a faithful key-value map of states.

Monitors: reference-model monitor (CacheModel, a relation: absent / data(v) / meta-only / maybe(v)) compared with the
real cache after every operation over the whole confusable key universe; raw-directory scanner searching every file of
obfuscating / encrypting caches for per-case unique marker strings embedded in values, keys' metadata and metadata
fields.
"""
import random

PROPERTY = "C13"
LEVEL = "exploration"
RULE = ("seeded random histories of 10-40 operations (store, store_metadata with assorted statuses, remove, clean; after "
        "every operation get/get_metadata/contains/keys for every key of the universe) over 16 confusable keys (shared "
        "prefixes, '/', '-', '~' entities, links, resource queries, absolute link keys, case / percent-spelling twins, "
        "non-ASCII, long) with values of every built-in state type, for 17 cache configurations. Evaluations = operations "
        "applied; non-trivial history = stores >= 2 distinct keys and contains a removal or a metadata-only write; "
        "distinct = distinct (configuration, history).")
ASSUMPTIONS = ["values are drawn from what the value's state type represents losslessly in its default format (C11's domain)",
               "a store that reports refusal leaves the key in an unspecified state (only 'no wrong value' is demanded)",
               "the contract is silent on whether a metadata write after a data write keeps the data (may serve it or nothing)"]
SHARD_TIMEOUT = {"quick": 900, "thorough": 5400}

KEYS = ["a", "a/b", "a/b-c", "a-b/c", "A", "a~Ib", "a~_b", "x-~X~y~E", "x-~X~/y/z~E", "-R/a/b/-/dr", "a/b/-/dr",
        "a%41", "aA", "/a", "/a/b", "k" * 120 + "/" + "m" * 120, "a/b.txt", "café-€", "a b",
        # two keys that differ only in Unicode normalisation form (they are different query texts)
        "caf\u00e9-x", "cafe\u0301-x",
        # a query text longer than any column width a back-end may have in mind (about 2600 characters)
        "/".join("w%02d-%s" % (i, "x" * 180) for i in range(14))]


def shards(tier, seed):
    from lqv.cachecfg import ALL_KINDS, FILE_BACKED

    out = []
    reps = 1 if tier == "quick" else 6
    n = 60 if tier == "quick" else 160
    for kind in ALL_KINDS:
        for r in range(reps):
            out.append({"kind": kind, "n": n if kind not in FILE_BACKED else n // 2, "rep": r})
    return out


def make_value(rnd, counter):
    mark = "VALMARK%05dX" % counter
    k = rnd.randrange(11)
    if k == 9:
        return "", mark, "empty_text"
    if k == 10:
        return b"", mark, "empty_bytes"
    if k == 0:
        return counter, mark, "int"
    if k == 1:
        return counter + 0.5, mark, "float"
    if k == 2:
        # (some texts begin with characters a decoder may take for a signature: a byte-order mark, a line separator)
        return rnd.choice(["", "", "\ufeff", "\ufeff\ufeff", "\u2028", " \n"]) + "text " + mark + " é" + rnd.choice(["", "\n", "\r\n", " "]), mark, "text"
    if k == 3:
        return (mark + "\x00\xff").encode("latin-1") * 3, mark, "bytes"
    if k == 4:
        return {"m": mark, "n": [1, 2, {"z": None}], "f": 1.5}, mark, "dict"
    if k == 5:
        return [mark, (1, 2), {"s": {3}}], mark, "pickle"
    if k == 6:
        import pandas as pd

        return pd.DataFrame({"a": [counter, 2], "b": [mark, "y"]}), mark, "dataframe"
    if k == 7:
        return None, mark, "none"
    return mark * 50, mark, "text"


def gen_history(rnd, n):
    hist = []
    c = 0
    keys = rnd.sample(KEYS, rnd.randint(3, 8))
    for _ in range(n):
        c += 1
        r = rnd.random()
        k = rnd.choice(keys)
        if r < 0.45:
            attrs = rnd.choice([{}, {"ABC": "abc"}, {"ABC": True}, {"ABC": "zzz"}, {"abc": "x"}])
            hist.append({"op": "store", "key": k, "vseed": rnd.randrange(10 ** 9), "n": c, "attrs": attrs})
        elif r < 0.7:
            status = rnd.choice(["ready", "ready", "evaluation", "error", "parent", "none", "submitted"])
            tid = rnd.choice([None, None, "current"])
            attrs = rnd.choice([{}, {"ABC": "abc"}, {"ABC": True}])
            hist.append({"op": "store_metadata", "key": k, "status": status, "tid": tid, "n": c, "attrs": attrs})
        elif r < 0.93:
            hist.append({"op": "remove", "key": k, "n": c})
        else:
            hist.append({"op": "clean", "key": "", "n": c})
    return hist


def poison_state(st):
    d = st.data
    try:
        import pandas as pd

        if isinstance(d, list):
            d.append("POISON")
            for x in d:                     # ... and what it holds
                if isinstance(x, dict):
                    x["POISON"] = 1
                elif isinstance(x, list):
                    x.append("POISON")
        elif isinstance(d, dict):
            d["POISON"] = 1
            for x in list(d.values()):
                if isinstance(x, list):
                    x.append("POISON")
                    for y in x:
                        if isinstance(y, dict):
                            y["POISON"] = 1
                elif isinstance(x, dict):
                    x["POISON"] = 1
        elif isinstance(d, pd.DataFrame):
            d["POISON"] = 0
    except Exception:
        pass
    st.data = "POISONED" if not isinstance(d, (list, dict)) else d
    st.metadata["query"] = "POISON/key"
    st.metadata["status"] = "evaluation"
    st.metadata["type_identifier"] = "text"


def values_equal(a, b):
    from lqv import refinterp as R

    return R.equal(a, b)


def run_history(kind, hist, scratch, counters):
    """returns list of discrepancies (dicts) at the first failing step"""
    from liquer.state import State
    from lqv import cachecfg

    built = cachecfg.build(kind, scratch)
    cache = built.cache
    conditional = ".if_" in kind and "+" not in kind
    model = {}      # key -> ("data", v) | ("meta",) | ("maybe", [values]) ; absent = missing
    marks = []      # every marker string ever handed to the cache
    universe = sorted(set(h["key"] for h in hist if h["key"]))
    out = []
    last_read = [None]

    def bad(step, read, key, kind_, detail):
        out.append({"step": step, "read": read, "key": key, "kind": kind_, "detail": detail, "op": hist[step]["op"],
                    "opkey": hist[step]["key"]})

    for i, h in enumerate(hist):
        op, k = h["op"], h["key"]
        try:
            if op == "store":
                v, mark, vt = make_value(random.Random(h["vseed"]), h["n"])
                st = State().with_data(v)
                st.query = k
                st.metadata["attributes"] = dict(h["attrs"])
                st.metadata["x_marker"] = "METAMARK%05dX" % h["n"]
                marks.append(mark)
                marks.append("METAMARK%05dX" % h["n"])
                import copy as _copy

                v = _copy.deepcopy(v)           # the model keeps its own copy
                r = cache.store(st)
                counters["store." + vt] = counters.get("store." + vt, 0) + 1
                # caller-side mutation of the state that was handed to store() must not reach the cache
                poison_state(st)
                counters["caller_mutations_after_store"] = counters.get("caller_mutations_after_store", 0) + 1
                admitted = cachecfg.admits(kind, h["attrs"]) if conditional else True
                if r:
                    if conditional and not admitted:
                        bad(i, "store", k, "conditional_cache_accepted_result_its_condition_excludes", repr(h["attrs"]))
                    model[k] = ("data", v)
                else:
                    if admitted:
                        bad(i, "store", k, "store_refused_for_admissible_result", "value type %s returned %r" % (vt, r))
                    old = model.get(k)
                    allowed = [v] + ([old[1]] if old and old[0] == "data" else []) + (old[1] if old and old[0] == "maybe" else [])
                    model[k] = ("maybe", allowed)
            elif op == "store_metadata":
                md = {"query": k, "status": h["status"], "attributes": dict(h["attrs"]), "x_marker": "METAMARK%05dX" % h["n"],
                      "type_identifier": None, "is_error": h["status"] == "error", "log": [], "message": ""}
                marks.append("METAMARK%05dX" % h["n"])
                cur = model.get(k)
                if h["tid"] == "current" and cur and cur[0] == "data":
                    from liquer.state_types import type_identifier_of

                    md["type_identifier"] = type_identifier_of(cur[1])
                elif h["tid"] not in (None, "current"):
                    md["type_identifier"] = h["tid"]
                cache.store_metadata(md)
                if cur is None or cur[0] == "meta":
                    model[k] = ("meta",)
                elif cur[0] == "data":
                    model[k] = ("maybe", [cur[1]])
                # maybe stays maybe
            elif op == "remove":
                cache.remove(k)
                model.pop(k, None)
            elif op == "clean":
                cache.clean()
                model.clear()
        except Exception as e:
            bad(i, "op:" + op, k, "raises:" + type(e).__name__, repr(e)[:200])
            return out
        # ---- reads
        try:
            listed = list(cache.keys())
        except Exception as e:
            listed = None
            bad(i, "keys", "", "raises:" + type(e).__name__, repr(e)[:120])
        # the keys are looked up in an order that changes from step to step, beginning with the key looked up last in the
        # previous step and with the key of the operation (anything a back-end remembers about its latest lookup is probed)
        order = list(universe)
        if i % 2 == 1:
            order.reverse()
        if k in order:
            order.remove(k)
            order.insert(1 if len(order) > 0 else 0, k)
        if last_read[0] in order:
            order.remove(last_read[0])
            order.insert(0, last_read[0])
        for key in order:
            last_read[0] = key
            m = model.get(key)
            counters["reads"] = counters.get("reads", 0) + 1
            try:
                g = cache.get(key)
            except Exception as e:
                bad(i, "get", key, "raises:" + type(e).__name__, repr(e)[:120])
                g = None
            if m is None:
                if g is not None:
                    bad(i, "get", key, "state_served_for_absent_key", "data %r" % (getattr(g, "data", None),))
            elif m[0] == "meta":
                if g is not None:
                    bad(i, "get", key, "metadata_only_write_made_data_retrievable", "data %r status %r" % (g.data, g.metadata.get("status")))
            elif m[0] == "data":
                if g is None:
                    bad(i, "get", key, "nothing_served_for_stored_key", "")
                else:
                    if not values_equal(g.data, m[1]):
                        bad(i, "get", key, "wrong_value", "want %r got %r" % (m[1], g.data))
                    if g.metadata.get("status") != "ready":
                        bad(i, "get", key, "served_metadata_not_ready", repr(g.metadata.get("status")))
                    if g.metadata.get("query") != key:
                        bad(i, "get", key, "served_metadata_carries_other_query", repr(g.metadata.get("query")))
            elif m[0] == "maybe":
                if g is not None and not any(values_equal(g.data, v) for v in m[1]):
                    bad(i, "get", key, "wrong_value", "allowed %r got %r" % (m[1], g.data))
            # get_metadata
            try:
                gm = cache.get_metadata(key)
            except Exception as e:
                gm = None
                bad(i, "get_metadata", key, "raises:" + type(e).__name__, repr(e)[:120])
            if m is None and gm:
                bad(i, "get_metadata", key, "metadata_for_absent_key", "query %r" % (gm.get("query"),))
            if m is not None and m[0] == "data":
                if not gm:
                    bad(i, "get_metadata", key, "no_metadata_for_stored_key", "")
                elif gm.get("query") != key or gm.get("status") != "ready":
                    bad(i, "get_metadata", key, "metadata_of_stored_key_wrong", "query %r status %r" % (gm.get("query"), gm.get("status")))
            elif gm and gm.get("query") not in (key, None):
                bad(i, "get_metadata", key, "metadata_carries_other_query", repr(gm.get("query")))
            # contains
            try:
                c = cache.contains(key)
                if m is None and c:
                    bad(i, "contains", key, "absent_key_reported_present", "")
                if m is not None and m[0] == "data" and not c:
                    bad(i, "contains", key, "stored_key_reported_absent", "")
            except Exception as e:
                bad(i, "contains", key, "raises:" + type(e).__name__, repr(e)[:120])
            # keys
            if listed is not None:
                if m is None and key in listed:
                    bad(i, "keys", key, "absent_key_listed", "")
                if m is not None and m[0] == "data" and key not in listed:
                    bad(i, "keys", key, "stored_key_not_listed", "")
        # ---- plaintext scan
        if kind in ("xor", "fernet") and op in ("store", "store_metadata"):
            counters["plaintext_scans"] = counters.get("plaintext_scans", 0) + 1
            for d in built.dirs:
                for fn in os_listdir(d):
                    raw = open(fn, "rb").read()
                    for mk in marks:
                        if mk.encode() in raw:
                            bad(i, "raw_file", k, "plain_bytes_on_disk", "marker %s in %s" % (mk, fn.split("/")[-1][:20]))
                            break
        if out:
            return out
    return out


def os_listdir(d):
    import os

    return [os.path.join(d, f) for f in os.listdir(d) if os.path.isfile(os.path.join(d, f))]


def sig_of(kind, d):
    base = kind
    ok, k = d.get("opkey") or "", d.get("key") or ""
    if ok != k and ok.lstrip("/") == k.lstrip("/") and d["read"] in ("get", "get_metadata", "contains", "keys"):
        return "C13|%s|keys differing only by a leading '/' share one entry" % base
    return "C13|%s|after %s|%s|%s" % (base, d["op"], d["read"], d["kind"])


def run_shard(spec):
    from lqv import storecfg, storecheck
    import hashlib

    scratch = spec["scratch"]
    counters = {}
    violations = {}
    nontrivial = set()
    samples = []
    evaluations = 0

    def run_one(kind, hist):
        nonlocal evaluations
        d = run_history(kind, hist, scratch, counters)
        evaluations += (d[0]["step"] + 1) if d else len(hist)
        counters["ops." + kind] = counters.get("ops." + kind, 0) + len(hist)
        seen = set()
        for disc in sorted(d, key=lambda x: (x["read"], x["kind"]))[:6]:
            rk = (disc["read"], disc["kind"])
            if rk in seen or len(seen) >= 2:
                continue
            seen.add(rk)

            def fails(h, rk=rk):
                try:
                    dd = run_history(kind, h, scratch, {})
                except Exception:
                    return False
                return any((x["read"], x["kind"]) == rk for x in dd)

            try:
                minimal = storecfg.ddmin(hist[:disc["step"] + 1], fails)
            except Exception:
                minimal = hist[:disc["step"] + 1]
            dd = [x for x in run_history(kind, minimal, scratch, {}) if (x["read"], x["kind"]) == rk] or [disc]
            final = dd[0]
            sig = sig_of(kind, final)
            lst = violations.setdefault(sig, [])
            if len(lst) < 2:
                lst.append({"sig": sig, "what": "%s: after %r: %s(%r) -> %s (%s)" % (
                    kind, [(h["op"], h["key"], h.get("status")) for h in minimal], final["read"], final["key"], final["kind"], final["detail"][:200]),
                    "witness": {"kind": kind, "history": minimal}})

    if "replay" in spec:
        w = spec["replay"]
        run_one(w["kind"], w["history"])
    else:
        kind = spec["kind"]
        rnd = random.Random("%s/C13/%s/%s" % (spec["seed"], kind, spec["rep"]))
        for h in range(spec["n"]):
            hist = gen_history(rnd, rnd.randint(10, 40))
            skeys = set(x["key"] for x in hist if x["op"] == "store")
            if len(skeys) >= 2 and any(x["op"] in ("remove", "clean", "store_metadata") for x in hist):
                nontrivial.add(hashlib.sha1(repr((kind, hist)).encode()).hexdigest()[:12])
            run_one(kind, hist)
            if not samples and h == 2:
                samples.append({"kind": kind, "history": [(x["op"], x["key"][:20], x.get("status")) for x in hist[:10]]})
    return {"evaluations": evaluations, "nontrivial": sorted(nontrivial),
            "violations": [v for lst in violations.values() for v in lst],
            "counters": counters, "samples": samples, "inconclusive": []}


def replay(spec):
    return run_shard(spec)


def finalize(m, tier, seed):
    from lqv.cachecfg import ALL_KINDS

    inc = []
    for k in ALL_KINDS:
        if not m["counters"].get("ops." + k):
            inc.append("configuration %s never exercised" % k)
    for k in ("plaintext_scans", "reads", "store.dataframe", "store.bytes", "store.pickle", "store.none", "store.empty_text", "store.empty_bytes"):
        if not m["counters"].get(k):
            inc.append("coverage class %s empty" % k)
    return {"inconclusive": inc}
