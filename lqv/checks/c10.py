"""C10 - evaluation isolation: variables and in-place mutation never leak.

Monitors: snapshot monitors - deep snapshots of (a) the configured variable defaults, (b) every state returned so far
(data and metadata; taken after the harness's own deliberate mutation of that state), (c) what the cache serves for every
key - re-compared after every later step; plus the self-differential oracle (every evaluation equals its NoCache
reference computed from pristine defaults).
"""
import copy
import random

PROPERTY = "C10"
LEVEL = "exploration"
RULE = ("seeded histories of 6-12 evaluations over families of queries extended with in-place mutators (push, setkey, dfcol "
        "on list/dict/data-frame inputs; mutvar on mutable variable values) and state-variable commands, with mutable "
        "configured defaults (a list and a dict), under in-process cache kinds (memory, proxy, conditional and '+' "
        "combinations) and - for the 'serves a copy' part - serialising kinds; after every evaluation the harness mutates the "
        "returned data and metadata in place. Evaluations = evaluations compared; non-trivial = history contains an in-place "
        "mutator or a variable write and a later cache hit; distinct = distinct (kind, history).")
ASSUMPTIONS = ["commands deterministic; the NoCache outcome from pristine defaults is the reference"]
SHARD_TIMEOUT = {"quick": 1200, "thorough": 7200}

KINDS = ["memory", "proxy(memory)", "memory.if_not_contains(ABC)", "memory.if_attribute_not_equal(ABC,abc)", "memory+memory",
         "memory.if_contains(ABC)+file", "file", "sql", "store_mem_nested", "none"]
DEFAULTS = {"mlist": ["d"], "mdict": {"k": ["v"]}, "plain": "p"}
# variables of kinds JSON has no form for (only where no cache has to write metadata as JSON)
MEMORY_ONLY = ("memory", "proxy(memory)", "memory.if_not_contains(ABC)", "memory.if_attribute_not_equal(ABC,abc)", "memory+memory", "none")
EXTRA_DEFAULTS = {"mset": {"s"}, "mtup": (["t"], "u")}
EXTRA_QUERIES = ["one/mutvar-mset/getvar-mset", "one/getvar-mset", "ctxmut-mset/getvar-mset", "one/mutvar-mset/mutvar-mset/state_variable-mset",
                 "one/mutvar-mtup/getvar-mtup", "one/getvar-mtup", "one/ctxmut-mtup/getvar-mtup"]


def defaults_for(kind):
    d = copy.deepcopy(DEFAULTS)
    if kind in MEMORY_ONLY:
        d.update(copy.deepcopy(EXTRA_DEFAULTS))
    return d


MUT_QUERIES = [
    "mk-list-2/push-a", "mk-list-2/push-a/push-b", "mk-dict-2/setkey-k-v", "mk-dict-1/setkey-k0-w/setkey-z-y",
    "mk-df-2/dfcol-c", "mk-df-2/dfcol-c/dfcol-z", "mk-nested/setkey-a-x", "one/mutvar-mlist/getvar-mlist",
    "one/mutvar-mdict/getvar-mdict", "one/getvar-mlist", "one/getvar-mdict", "one/let-v1-a/getvar-v1", "one/getvar-v1",
    "lit-x/let-v1-b/cat-~X~getvar-v1~E", "one/let-mlist-zz/getvar-mlist", "one/mutvar-mlist/mutvar-mlist/state_variable-mlist",
    "mk-list-1/push-q/ident", "mk-list-2/ident/push-r", "one/flag-v2/getvar-v2", "one/ns-alt/getvar-active_namespaces",
    "one/cat-~X~/one/let-v1-inlink/getvar-v1~E/getvar-v1", "one/let-v1-outer/cat-~X~getvar-v1~E",
    "one/sub-one~Ilet~_v1~_insub~Igetvar~_v1/getvar-v1", "mk-list-2/cat-~X~push-w~E/push-e",
    "mk-matrix-2/deepmut", "mk-matrix-2/ident", "mk-matrix-2/deepmut/deepmut-w", "mk-lod-2/deepmut/ident", "mk-lod-2/ident",
    "mk-nested/deepmut", "mk-matrix-3/push-a/deepmut",
    "mk-tlist-2/deepmut", "mk-tlist-2/ident", "mk-tlist-2/deepmut/deepmut-w", "mk-tlist-1/deepmut/ident", "mk-tlist-2/ident/deepmut",
    "one/argmut-~X~/mk-list-2~E-~X~/mk-list-2~E", "lit-a/argmut-~X~/mk-dict-1~E-~X~/mk-dict-1~E/ident", "mk-list-2/argmut-~X~ident~E-~X~ident~E",
    "one/let-plain-q/num-3/getvar-plain", "one/let-mlist-zz/lit-a/getvar-mlist", "one/mutvar-mlist/num-2/getvar-mlist",
    "one/let-plain-q/firstcat-~X~/one~E/state_variable-plain",
    "-R/res.txt", "res.txt/-/ident", "-R/dir/n.json", "dir/n.json/-/cat-x", "-R/res.txt/-/cat-a/cat-b",
    "ctxmut-mlist/getvar-mlist", "one/ctxmut-mlist/getvar-mlist", "ctxmut-mdict/getvar-mdict", "one/ctxmut-mlist/ctxmut-mlist/ident",
]


def shards(tier, seed):
    out = []
    reps = 2 if tier == "quick" else 12
    for kind in KINDS:
        n = 18 if tier == "quick" else 50
        if kind in ("file", "sql", "memory.if_contains(ABC)+file"):
            n = n // 2
        for r in range(reps):
            out.append({"kind": kind, "n": n, "rep": r})
    return out


def mutate_in_place(rnd, st):
    """caller-side mutation of a returned state (data and metadata)"""
    d = st.data
    try:
        import pandas as pd

        if isinstance(d, list):
            d.append("CALLER")
            if d and isinstance(d[0], list):
                d[0].append("CALLER")
        elif isinstance(d, dict):
            d["CALLER"] = 1
            for v in d.values():
                if isinstance(v, list):
                    v.append("CALLER")
        elif isinstance(d, pd.DataFrame):
            d["CALLER"] = 7
            if len(d):
                d.iloc[0, 0] = 99
    except Exception:
        pass
    md = st.metadata
    if isinstance(md.get("vars"), dict):
        md["vars"]["CALLER"] = "x"
        for v in md["vars"].values():
            if isinstance(v, list):
                v.append("CALLER")
            elif isinstance(v, dict):
                v["CALLER"] = 1
    if isinstance(md.get("attributes"), dict):
        md["attributes"]["CALLER"] = True
    md["query"] = "CALLER/changed"
    md["status"] = "evaluation"
    if isinstance(md.get("log"), list):
        md["log"].append({"kind": "info", "message": "CALLER"})


def _neq(a, b):
    try:
        return not (a == b)
    except Exception:
        return repr(a) != repr(b)


def snapshot_state(st):
    return copy.deepcopy(st.data), copy.deepcopy(st.metadata)


def run_history(env, kind, events, scratch, viol, stats, rnd):
    from liquer.parser import parse
    import liquer.state as S
    from lqv import cachecfg, evalcache as E, refinterp as R
    from lqv.checks.c04 import Recorder

    cache = None
    if kind != "none":
        cache = Recorder(cachecfg.build(kind, scratch).cache)
    returned = []   # (state, data snapshot, metadata snapshot, step)
    S._vars = defaults_for(kind)
    pristine = defaults_for(kind)
    keys = set()
    for step, e in enumerate(events):
        q = e["q"]
        ref = env.reference(q, e.get("input"), e.get("extra"))
        h0 = cache.hits if cache is not None else 0
        got, st, log = env.evaluate(q, e.get("input"), e.get("extra"), cache=cache)
        if e.get("input") is None and e.get("extra") is None and ref is not None and ref.get("ok"):
            # the isolated reference is the evaluator itself without a cache; the model of isolation is the plain
            # left-to-right composition (every link argument a value of its own, variables threaded to the right)
            out = env.interp(q)
            if out is not None and out.ok:
                stats["composition_checks"] = stats.get("composition_checks", 0) + 1
                if not R.equal(out.value, ref["value"]):
                    viol("isolated_evaluation_differs_from_composition.value", "%s: evaluate(%r) without cache gives %s, composition of the functions %s" % (
                        kind, q, R.short(ref["value"]), R.short(out.value)), step)
                elif not R.dict_equal_unordered(out.vars, ref["vars"]):
                    viol("isolated_evaluation_differs_from_composition.state_variables", "%s: evaluate(%r) without cache ends with variables %r, composition %r" % (
                        kind, q, ref["vars"], out.vars), step)
        if getattr(env, "input_mutated", None):
            viol("injected_input_value_mutated", "%s: step %d evaluate(%r, input_value=%s): the caller's object became %s" % (
                kind, step, q, env.input_mutated[0], env.input_mutated[1]), step)
        if got is None or ref is None:
            continue
        stats["evaluations"] += 1
        hit = cache is not None and cache.hits > h0
        if hit and stats.get("_mut_seen"):
            stats["nontrivial"].add(stats["hist_id"])
        if any(x in q for x in ("push", "setkey", "dfcol", "mutvar", "let-", "flag-")):
            stats["_mut_seen"] = True
        for field, detail in E.compare_outcomes(ref, got, env, q):
            if field in E.JSON_IMAGE_FIELDS:
                continue    # not a leak: the JSON image of a tuple-valued variable (C04's listed finding)
            viol("evaluation_differs_from_isolated_reference." + field,
                 "%s: step %d evaluate(%r)%s: %s" % (kind, step, q, " [cache hit]" if hit else "", detail), step)
        # (a) configured defaults
        if not R.dict_equal_unordered(S._vars, pristine):
            viol("configured_defaults_changed", "%s: after step %d evaluate(%r): defaults %r became %r" % (kind, step, q, pristine, S._vars), step)
            S._vars = copy.deepcopy(pristine)
        # (b) previously returned states
        for (pst, pdata, pmeta, pstep) in returned:
            if not R.equal(pst.data, pdata):
                viol("previously_returned_data_changed", "%s: state returned at step %d (%r) changed after step %d evaluate(%r): %s -> %s" % (
                    kind, pstep, events[pstep]["q"], step, q, R.short(pdata), R.short(pst.data)), step)
            elif not R.dict_equal_unordered(pst.metadata.get("vars", {}), pmeta.get("vars", {})):
                viol("previously_returned_vars_changed", "%s: vars of the state returned at step %d changed after step %d: %r -> %r" % (
                    kind, pstep, step, pmeta.get("vars"), pst.metadata.get("vars")), step)
            else:
                # the rest of its metadata (attributes, log, commands, ...) belongs to the caller just as much
                changed = [f for f in sorted(set(pmeta) | set(pst.metadata)) if f != "vars" and _neq(pst.metadata.get(f), pmeta.get(f))]
                if changed:
                    viol("previously_returned_metadata_changed", "%s: metadata fields %r of the state returned at step %d (%r) changed after step %d evaluate(%r): %r -> %r" % (
                        kind, changed[:4], pstep, events[pstep]["q"], step, q, pmeta.get(changed[0]), pst.metadata.get(changed[0])), step)
        # (b') a newly constructed state is pristine (what every evaluation starts from)
        from liquer.state import State

        fresh_md = State().metadata
        dirty = [f for f in ("attributes", "log", "commands", "extended_commands", "sources", "direct_subqueries", "argument_queries")
                 if fresh_md.get(f) not in (None, [], {}, ())]
        if dirty or "CALLER" in repr(fresh_md):
            viol("new_state_not_pristine", "%s: after step %d evaluate(%r) + caller mutation a new State() carries %r" % (
                kind, step, q, {f: fresh_md.get(f) for f in dirty} or "CALLER"), step)
        if st is not None:
            mutate_in_place(rnd, st)
            stats["caller_mutations"] = stats.get("caller_mutations", 0) + 1
            d, m = snapshot_state(st)
            returned.append((st, d, m, step))
            returned[:] = returned[-6:]
        # (c) what the cache serves
        try:
            keys.add(parse(q).encode())
        except Exception:
            pass
        for x in E.prefixes_of(q) + E.link_queries_of(q):
            keys.add(x)
        if cache is not None:
            for k in sorted(keys):
                try:
                    g = cache.inner.get(k)
                except Exception as ex:
                    viol("cache_get_raises", "%s: get(%r) raised %r" % (kind, k, ex), step)
                    continue
                if g is None:
                    continue
                stats["served_checked"] = stats.get("served_checked", 0) + 1
                fresh = env.reference(k)
                if fresh is None or not fresh["ok"]:
                    continue
                if not R.equal(g.data, fresh["value"]):
                    viol("cache_serves_mutated_value", "%s: after step %d evaluate(%r) + caller mutation: get(%r) serves %s, fresh value %s" % (
                        kind, step, q, k, R.short(g.data), R.short(fresh["value"])), step)
                elif not R.dict_equal_unordered(g.metadata.get("vars", {}), fresh["vars"]):
                    viol("cache_serves_mutated_vars", "%s: after step %d: get(%r) carries vars %r, fresh %r" % (
                        kind, step, k, g.metadata.get("vars"), fresh["vars"]), step)
    if cache is not None:
        stats["hits." + kind] = stats.get("hits." + kind, 0) + cache.hits


def run_shard(spec):
    from lqv import evalcache as E
    from lqv.gen.query import QGen

    env = E.Env(default_vars=defaults_for(spec["replay"]["kind"] if "replay" in spec else spec["kind"]))
    env.ref.isolate = True
    scratch = spec["scratch"]
    violations = {}
    samples = []
    stats = {"evaluations": 0, "nontrivial": set(), "hist_id": ""}

    def make_viol(kind, events):
        def viol(what, detail, step):
            sig = "C10|%s" % what
            lst = violations.setdefault(sig, [])
            if len(lst) < 3:
                lst.append({"sig": sig, "what": detail[:1200], "witness": {"kind": kind, "events": events[:step + 1]}})
        return viol

    if "replay" in spec:
        w = spec["replay"]
        run_history(env, w["kind"], w["events"], scratch, make_viol(w["kind"], w["events"]), stats, random.Random(0))
    else:
        kind = spec["kind"]
        rnd = random.Random("%s/C10/%s/%s" % (spec["seed"], kind, spec["rep"]))
        g = QGen(rnd, allow_fail=False, allow_volatile=True, allow_mutators=True, max_len=4)
        g.avoid_none_default = True
        for h in range(spec["n"]):
            stats["hist_id"] = "%s/%s.%d" % (kind, spec["rep"], h)
            stats["_mut_seen"] = False
            pool = rnd.sample(MUT_QUERIES + (EXTRA_QUERIES if kind in MEMORY_ONLY else []), 5)
            fam = E.family(rnd, g)
            for q in pool:
                fam += [q] + E.prefixes_of(q)[1:]
                if rnd.random() < 0.5:
                    fam.append(q + "/" + rnd.choice(["push-t", "ident", "getvar-mlist", "mutvar-mlist/getvar-mlist", "cat-z"]))
            events = []
            for _ in range(rnd.randint(6, 12)):
                e = {"q": rnd.choice(fam)}
                r = rnd.random()
                if r < 0.12:
                    e["input"] = rnd.choice([3, 4, 8])  # [1,2], {"k":1}, []
                    if rnd.random() < 0.6:
                        e["q"] = rnd.choice(["push-i", "push-i/push-j", "setkey-a-b", "deepmut", "ident/push-k", "cat-x"])
                events.append(e)
            run_history(env, kind, events, scratch, make_viol(kind, events), stats, rnd)
            if not samples and h == 1:
                samples.append({"kind": kind, "events": events[:8]})
    counters = dict(env.counters)
    for k, v in stats.items():
        if k.startswith("hits.") or k in ("caller_mutations", "served_checked"):
            counters[k] = v
    return {"evaluations": stats["evaluations"], "nontrivial": sorted(stats["nontrivial"]),
            "violations": [v for lst in violations.values() for v in lst],
            "counters": counters, "samples": samples, "inconclusive": []}


def replay(spec):
    return run_shard(spec)


def finalize(m, tier, seed):
    inc = []
    for k in KINDS:
        if k != "none" and not m["counters"].get("hits." + k):
            inc.append("cache kind %s never hit" % k)
    for k in ("caller_mutations", "served_checked"):
        if not m["counters"].get(k):
            inc.append("monitor %s never reached" % k)
    return {"inconclusive": inc}
