"""C14 - mounted stores: routing, key translation and union views are exact.

Monitors: reference-model monitor on the composite (union of the parts re-prefixed, mount points and their ancestors
pinned as directories, default-store content under a mount prefix invisible) after every operation; per-part
reference models compared with the raw part stores after every operation (routing and key translation are observed,
not inferred: every written value embeds a unique counter and its composite key); to_root_key round trips.
"""
import random

PROPERTY = "C14"
LEVEL = "exploration"
RULE = ("seeded random mount tables: 0-3 mounts drawn from one- and two-component, sibling and nested prefixes (outer "
        "mounted before inner), with and without default store, parts being memory or directory stores pre-populated with "
        "distinguishable content (including default-store content under a mount prefix, which must stay invisible and "
        "untouched); well-formed histories of 6-20 operations on keys inside, outside, exactly at and next to mount points. "
        "Evaluations = operations applied through the composite; non-trivial = table has >= 1 mount and the history "
        "writes below a mount point; distinct = distinct (table, contents, history).")
ASSUMPTIONS = ["outer prefixes are mounted before inner ones (as the quantifier states)",
               "for a key that exists nowhere and that no store routes, contains/is_dir may answer false or raise"]
SHARD_TIMEOUT = {"quick": 900, "thorough": 5400}

POOL = ["m", "n", "p/q", "p/r", "m/sub", "p/q/z"]


def shards(tier, seed):
    m = 16 if tier == "quick" else 48
    n = 60 if tier == "quick" else 400
    return [{"part": k, "n": n} for k in range(m)]


def gen_scenario(rnd):
    from lqv.models import storemodel as SM

    k = rnd.choice([0, 1, 1, 2, 2, 2, 3, 3])
    prefixes = sorted(rnd.sample(POOL, k), key=lambda p: (p.count("/"), p))
    has_default = rnd.random() < 0.6 or k == 0
    parts = []
    for p in prefixes:
        kind = rnd.choice(["memory", "memory", "file"])
        pm = SM.StoreModel()
        uni = ["x.txt", "d", "d/y.txt", "k.json", "sub", "sub/in.txt", "z", "z/w.txt"]
        hist = SM.gen_history(rnd, pm, uni, rnd.randint(0, 4), weights={"store": 5, "makedir": 2}, tag="P" + p.replace("/", "_"))
        parts.append({"prefix": p, "kind": kind, "content": [SM.op_to_json(o) for o in hist]})
    default = None
    if has_default:
        dm = SM.StoreModel()
        uni = ["o.txt", "o/z.txt", "mx/k.txt", "p/k.txt", "m/hidden.txt", "m", "p/q/hid.txt", "n/h2.txt", "m/sub/deep.txt", "p"]
        mount_dirs = set(prefixes)
        for p in prefixes:
            mount_dirs.update(SM.ancestors(p))

        def no_file_on_mount_dir(op, model):
            # a file in the default store at a mount point or at an ancestor of one contradicts the table
            return op[0] == "store" and (op[1] in mount_dirs)

        hist = SM.gen_history(rnd, dm, uni, rnd.randint(0, 5), weights={"store": 5, "makedir": 2}, tag="D",
                              avoid=no_file_on_mount_dir)
        default = {"kind": rnd.choice(["memory", "memory", "file"]), "content": [SM.op_to_json(o) for o in hist]}
    return {"parts": parts, "default": default}


def owner(prefixes, key):
    """index of the mount owning the key (last matching mount wins), or None for the default store"""
    own = None
    for i, p in enumerate(prefixes):
        if key == p or key.startswith(p + "/"):
            own = i
    return own


def universe_for(prefixes):
    u = ["o.txt", "o", "o/z.txt", "mx/k.txt", "p/k.txt", "m/hidden.txt", "p"]
    for p in POOL:
        u += [p, p + "/x.txt", p + "/d", p + "/d/y.txt"]
    for p in prefixes:
        u += [p + "/d/" + p + "/y.txt", p + "/d/" + p]  # the mount prefix repeated deeper in the key
    return sorted(set(u))


def make_case_factory(scn, scratch, counters=None):
    from lqv import storecfg
    from lqv.models import storemodel as SM
    from liquer.store import MountPointStore

    prefixes = [p["prefix"] for p in scn["parts"]]

    def make_case():
        cleanup = []
        dleaf = None
        dmodel = None
        if scn["default"] is not None:
            dleaf = storecfg.leaf(scn["default"]["kind"], scratch, cleanup)
            dmodel = SM.StoreModel()
            for o in scn["default"]["content"]:
                o = SM.op_from_json(o)
                dmodel.apply(o)
                SM.apply_real(dleaf, o)
        mps = MountPointStore(default_store=dleaf)
        leaves, pmodels = [], []
        for p in scn["parts"]:
            lf = storecfg.leaf(p["kind"], scratch, cleanup)
            pm = SM.StoreModel()
            for o in p["content"]:
                o = SM.op_from_json(o)
                pm.apply(o)
                SM.apply_real(lf, o)
            mps.mount(p["prefix"], lf)
            leaves.append(lf)
            pmodels.append(pm)
        # expected composite view
        pinned = set()
        for p in prefixes:
            pinned.add(p)
            pinned.update(SM.ancestors(p))
        view = SM.StoreModel(pinned=pinned)

        def visible(i, rootkey):
            return owner(prefixes, rootkey) == i

        for i, pm in enumerate(pmodels):
            for k, v in pm.files.items():
                rk = prefixes[i] + "/" + k
                if visible(i, rk):
                    view.files[rk] = v
            for k in pm.dirs:
                rk = prefixes[i] + "/" + k
                if visible(i, rk):
                    view.dirs.add(rk)
        if dmodel is not None:
            for k, v in dmodel.files.items():
                if owner(prefixes, k) is None and k not in pinned:
                    view.files[k] = v
            for k in dmodel.dirs:
                if owner(prefixes, k) is None:
                    view.dirs.add(k)
        view = SM.StoreModel(view.files, view.dirs, pinned)
        built = storecfg.Built(mps, leaves + ([dleaf] if dleaf is not None else []), cleanup=cleanup, pinned=pinned)
        part_unis = [sorted(set(["x.txt", "d", "d/y.txt", "k.json", "sub", "sub/in.txt", "z", "z/w.txt",
                                 "d/" + p, "d/" + p + "/y.txt"])) for p in prefixes]
        d_uni = ["o.txt", "o", "o/z.txt", "mx/k.txt", "p/k.txt", "m/hidden.txt", "m", "p/q/hid.txt", "n/h2.txt", "m/sub/deep.txt", "p"]

        def extra(i_step, op, m):
            # route the operation into the owning part's model, then compare every part with its model
            out = []
            k = op[1]
            i = owner(prefixes, k)
            if i is None:
                if dmodel is not None and dmodel.can(op):
                    dmodel.apply(op)
            else:
                sub = "" if k == prefixes[i] else k[len(prefixes[i]) + 1:]
                pop = [op[0], sub] + list(op[2:])
                if sub != "" and pmodels[i].can(pop):
                    pmodels[i].apply(pop)
            for j, lf in enumerate(leaves):
                dd = SM.check_reads(lf, pmodels[j], part_unis[j])
                for x in dd[:2]:
                    x = dict(x, read="part[%s].%s" % ("mount", x["read"]), rel="routed")
                    out.append(x)
            if dleaf is not None:
                dd = SM.check_reads(dleaf, dmodel, d_uni)
                for x in dd[:2]:
                    out.append(dict(x, read="part[default].%s" % x["read"], rel="routed"))
            # to_root_key round trips
            for j, lf in enumerate(leaves):
                for pk, (data, _um) in list(pmodels[j].files.items())[:4]:
                    rk_want = prefixes[j] + "/" + pk
                    try:
                        rk = lf.to_root_key(pk)
                    except Exception as e:
                        out.append({"read": "to_root_key", "key": rk_want, "kind": "raises:" + type(e).__name__, "detail": "", "rel": "routed"})
                        continue
                    if counters is not None:
                        counters["to_root_key_checks"] = counters.get("to_root_key_checks", 0) + 1
                    if rk != rk_want:
                        out.append({"read": "to_root_key", "key": rk_want, "kind": "wrong_root_key", "detail": "got %r" % rk, "rel": "routed"})
                    elif owner(prefixes, rk) == j:
                        try:
                            if lf.root_store().get_bytes(rk) != data:
                                out.append({"read": "to_root_key", "key": rk_want, "kind": "root_store_reaches_other_entry", "detail": "", "rel": "routed"})
                        except Exception as e:
                            out.append({"read": "to_root_key", "key": rk_want, "kind": "root_store_raises:" + type(e).__name__, "detail": "", "rel": "routed"})
            return out

        def wild(rnd):
            """operations the model has no opinion about (exactly at mount points, on ancestors of mount points), errors
            ignored - afterwards only model-free structural facts are demanded: default-store content lying under a mount
            prefix is untouched, every listed key is well formed, contained and listed once, and the composite listing is
            the union of the raw contents of the parts."""
            out = []
            hidden_before = None
            if dleaf is not None:
                hidden_before = {k: (dleaf.get_bytes(k) if not dleaf.is_dir(k) else None) for k in sorted(dleaf.keys())
                                 if owner(prefixes, k) is not None and k not in pinned}
            targets = sorted(pinned) + [p + "/" + x for p in prefixes for x in ("x.txt", "d")] + ["o", "o.txt"]
            # keys below a mount prefix that the mounted store may refuse: refused or served there, never routed elsewhere
            targets += [p + "/" + x for p in prefixes for x in ("__metadata__", "../esc.txt", "d/../../esc2.txt", "d/__metadata__")]
            done = []
            for _ in range(8):
                k = rnd.choice(targets)
                kind = rnd.choice(["store_metadata", "makedir", "remove", "removedir", "removedir_recursive", "store"])
                done.append([kind, k])
                try:
                    if kind == "store_metadata":
                        mps.store_metadata(k, {"x_user": "wild"})
                    elif kind == "makedir":
                        mps.makedir(k)
                    elif kind == "remove":
                        mps.remove(k)
                    elif kind == "removedir":
                        mps.removedir(k)
                    elif kind == "removedir_recursive":
                        mps.removedir(k, recursive=True)
                    else:
                        mps.store(k, b"wild", {"x_user": "wild"})
                except Exception:
                    pass
            if dleaf is not None:
                hidden_after = {k: (dleaf.get_bytes(k) if not dleaf.is_dir(k) else None) for k in sorted(dleaf.keys())
                                if owner(prefixes, k) is not None and k not in pinned}
                if hidden_after != hidden_before:
                    out.append({"read": "default_store_raw", "key": "", "kind": "shadowed_default_content_changed",
                                "detail": "before %r after %r (operations %r)" % (sorted(hidden_before), sorted(hidden_after), done), "rel": "-"})
            try:
                listed = list(mps.keys())
            except Exception as e:
                out.append({"read": "keys", "key": "", "kind": "raises_after_wild_operations", "detail": "%r after %r" % (e, done), "rel": "-"})
                return out
            for k in listed:
                if k in ("", None):
                    continue
                if k.endswith("/") or k.startswith("/") or "//" in k:
                    out.append({"read": "keys", "key": k, "kind": "malformed_key_listed", "detail": "%r after %r" % (k, done), "rel": "-"})
                elif listed.count(k) > 1:
                    out.append({"read": "keys", "key": k, "kind": "duplicate", "detail": "%r listed %d times after %r" % (k, listed.count(k), done), "rel": "-"})
            # union of the raw parts
            want = set(pinned)
            for j, lf in enumerate(leaves):
                try:
                    for k in lf.keys():
                        rk = prefixes[j] if k in ("", None) else prefixes[j] + "/" + k
                        if owner(prefixes, rk) == j:
                            want.add(rk)
                except Exception:
                    pass
            if dleaf is not None:
                for k in dleaf.keys():
                    if k not in ("", None) and owner(prefixes, k) is None:
                        want.add(k)
            got = set(k for k in listed if k not in ("", None) and not k.endswith("/"))
            if got != want:
                out.append({"read": "keys", "key": "", "kind": "listing_is_not_the_union_of_the_parts",
                            "detail": "missing %r extra %r after %r" % (sorted(want - got)[:4], sorted(got - want)[:4], done), "rel": "-"})
            # metadata through the composite == metadata of the owning part, re-prefixed (mount points included)
            for j, lf in enumerate(leaves):
                try:
                    ks = [""] + sorted(k for k in lf.keys() if k not in ("", None))[:10]
                except Exception:
                    continue
                for k in ks:
                    rk = prefixes[j] if k == "" else prefixes[j] + "/" + k
                    if owner(prefixes, rk) != j:
                        continue
                    try:
                        pmd = lf.get_metadata(k)
                    except Exception:
                        continue   # the part has no metadata of its own for this key: nothing to re-prefix
                    if counters is not None:
                        counters["composite_vs_part_metadata"] = counters.get("composite_vs_part_metadata", 0) + 1
                    try:
                        cmd = mps.get_metadata(rk)
                    except Exception as e:
                        out.append({"read": "get_metadata", "key": rk, "kind": "raises_where_the_part_answers",
                                    "detail": "%r after %r" % (e, done), "rel": "mount point" if k == "" else "below"})
                        continue
                    if not isinstance(pmd, dict) or not isinstance(cmd, dict):
                        continue
                    if cmd.get("key") != rk:
                        out.append({"read": "get_metadata", "key": rk, "kind": "reported_key_not_re_prefixed",
                                    "detail": "reports %r after %r" % (cmd.get("key"), done), "rel": "mount point" if k == "" else "below"})
                    diff = [f for f in sorted(set(pmd) | set(cmd)) if f not in ("key", "fileinfo", "updated", "created") and pmd.get(f) != cmd.get(f)]
                    fi_p, fi_c = pmd.get("fileinfo") or {}, cmd.get("fileinfo") or {}
                    diff += ["fileinfo." + f for f in sorted(set(fi_p) | set(fi_c)) if f != "name" and fi_p.get(f) != fi_c.get(f)]
                    if diff:
                        out.append({"read": "get_metadata", "key": rk, "kind": "differs_from_the_part's_metadata",
                                    "detail": "fields %r: part %r composite %r after %r" % (
                                        diff[:4], {f: pmd.get(f) for f in diff[:4]}, {f: cmd.get(f) for f in diff[:4]}, done),
                                    "rel": "mount point" if k == "" else "below"})
            # exactly AT a mount point: the key is the mounted store's own root key
            for j, lf in enumerate(leaves):
                p = prefixes[j]
                if owner(prefixes, p) != j:
                    continue
                if counters is not None:
                    counters["at_mount_point_checks"] = counters.get("at_mount_point_checks", 0) + 1
                try:
                    rk = lf.to_root_key("")
                    if rk != p:
                        out.append({"read": "to_root_key", "key": p, "kind": "root_key_of_the_mounted_store_not_translated", "detail": "got %r" % (rk,), "rel": "mount point"})
                except Exception as e:
                    out.append({"read": "to_root_key", "key": p, "kind": "raises:" + type(e).__name__, "detail": "", "rel": "mount point"})
                try:
                    mps.store(p, b"at-mount-point", {"x_user": "mp"})
                    stored = True
                except Exception:
                    stored = False       # a directory store cannot hold data under its root: refused, fine
                if stored:
                    def rd(s_, k_):
                        try:
                            return s_.get_bytes(k_)
                        except Exception:
                            return None
                    if rd(lf, "") != b"at-mount-point" or rd(mps, p) != b"at-mount-point":
                        out.append({"read": "get_bytes", "key": p, "kind": "data_stored_at_the_mount_point_not_served_by_the_mounted_store",
                                    "detail": "part %r composite %r" % (rd(lf, ""), rd(mps, p)), "rel": "mount point"})
                    try:
                        mps.remove(p)
                    except Exception as e:
                        out.append({"read": "op:remove", "key": p, "kind": "raises:" + type(e).__name__, "detail": "", "rel": "mount point"})
                    if rd(mps, p) is not None or rd(lf, "") is not None:
                        out.append({"read": "get_bytes", "key": p, "kind": "entry_removed_at_the_mount_point_still_served",
                                    "detail": "part %r composite %r" % (rd(lf, ""), rd(mps, p)), "rel": "mount point"})
            # a proper ancestor of a mount point belongs to the default store: removing the (empty) directory there is the
            # default store's business - the composite keeps reporting it, because a mount point lies below it
            if dleaf is not None:
                for p in prefixes:
                    if "/" not in p:
                        continue
                    anc = p.split("/")[0]
                    if anc in prefixes or owner(prefixes, anc) is not None:
                        continue
                    try:
                        if not dleaf.is_dir(anc):
                            dleaf.makedir(anc)
                        if dleaf.listdir(anc):
                            continue
                        root = getattr(dleaf, "path", None)
                        if root is not None:
                            import os as _os

                            # a directory store: really empty on disk too (the operations above may have filed metadata
                            # for entries that never received data; that is another matter)
                            raw = _os.path.join(str(root), anc)
                            if any(fs for _dp, _dn, fs in _os.walk(raw)):
                                continue
                    except Exception:
                        continue
                    if counters is not None:
                        counters["mount_ancestor_removals"] = counters.get("mount_ancestor_removals", 0) + 1
                    try:
                        mps.removedir(anc)
                    except Exception as e:
                        out.append({"read": "op:removedir", "key": anc, "kind": "raises_for_a_default_store_directory:" + type(e).__name__,
                                    "detail": repr(e)[:120], "rel": "mount ancestor"})
                        continue
                    try:
                        if dleaf.is_dir(anc):
                            out.append({"read": "default_store_raw", "key": anc, "kind": "directory_not_removed_from_the_default_store", "detail": "", "rel": "mount ancestor"})
                        if not mps.is_dir(anc) or not mps.contains(anc):
                            out.append({"read": "is_dir", "key": anc, "kind": "mount_ancestor_no_longer_reported", "detail": "", "rel": "mount ancestor"})
                    except Exception:
                        pass
            return out[:4]

        extra.wild = wild
        return built, view, extra

    return make_case


def label_of(scn):
    return "mounts[%s]%s" % (",".join(p["prefix"] for p in scn["parts"]), "+default" if scn["default"] is not None else "")


def gen_ops(rnd, scn, view, n):
    """well-formed history on the composite view; operations must be routable"""
    from lqv.models import storemodel as SM

    prefixes = [p["prefix"] for p in scn["parts"]]
    uni = universe_for(prefixes)

    def avoid(op, model):
        k = op[1]
        if owner(prefixes, k) is None and scn["default"] is None:
            return True  # no route
        if k in model.pinned and op[0] != "makedir":
            return True
        if owner(prefixes, k) is None and any(k == a for p in prefixes for a in SM.ancestors(p)):
            return True  # writing to an ancestor of a mount point in the default store: outside the statement
        if owner(prefixes, k) is None and any(p.startswith(k + "/") for p in prefixes):
            return True
        return False

    return SM.gen_history(rnd, view, uni, n, avoid=avoid, tag="c"), uni


def run_shard(spec):
    from lqv import storecheck
    from lqv.models import storemodel as SM

    scratch = spec["scratch"]
    violations = {}
    counters = {}
    nontrivial = set()
    samples = []
    evaluations = 0

    def run_one(scn, hist, uni):
        nonlocal evaluations
        mk = make_case_factory(scn, scratch, counters)
        label = "MountPointStore" + ("+default" if scn["default"] is not None else "-default")
        v, steps, reads = storecheck.explore_case(PROPERTY, label, mk, hist, uni)
        if not v and scn["parts"]:
            # wild phase on a fresh instance of the scenario brought to the end of the history
            import random as _r
            from lqv import storecfg as _sc

            b2, m2, ex2 = mk()
            try:
                dd, _, _ = _sc.run_history(b2, hist, uni, model=m2, extra_check=None, check_purity=False)
                if not dd:
                    for disc in ex2.wild(_r.Random(repr(hist))):
                        counters["wild_phases"] = counters.get("wild_phases", 0) + 1
                        v.append({"sig": "%s|%s|after operations at mount points|%s|%s" % (PROPERTY, label, disc["read"], disc["kind"]),
                                  "what": "%s: %s" % (disc["kind"], disc["detail"]),
                                  "witness": {"label": label, "history": [SM.op_to_json(o) for o in hist], "wild": True}})
                    counters["wild_phases"] = counters.get("wild_phases", 0) + 1
            finally:
                b2.close()
        for x in v:
            x["what"] = label_of(scn) + " " + x["what"]
        evaluations += steps
        counters["reads_compared"] = counters.get("reads_compared", 0) + reads
        for x in v:
            lst = violations.setdefault(x["sig"], [])
            if len(lst) < 2:
                x["witness"].update({"scenario": scn})
                lst.append(x)

    if "replay" in spec:
        w = spec["replay"]
        scn = w["scenario"]
        run_one(scn, [SM.op_from_json(o) for o in w["history"]], universe_for([p["prefix"] for p in scn["parts"]]))
    else:
        rnd = random.Random("%s/C14/%s" % (spec["seed"], spec["part"]))
        for h in range(spec["n"]):
            scn = gen_scenario(rnd)
            mk = make_case_factory(scn, scratch)
            built, view, _ = mk()
            built.close()
            hist, uni = gen_ops(rnd, scn, view.clone(), rnd.randint(6, 20))
            prefixes = [p["prefix"] for p in scn["parts"]]
            counters["tables.%d_mounts%s" % (len(prefixes), "+default" if scn["default"] is not None else "")] = \
                counters.get("tables.%d_mounts%s" % (len(prefixes), "+default" if scn["default"] is not None else ""), 0) + 1
            if any("/" in p for p in prefixes):
                counters["tables.two_component_prefix"] = counters.get("tables.two_component_prefix", 0) + 1
            if any(a != b and b.startswith(a + "/") for a in prefixes for b in prefixes):
                counters["tables.nested"] = counters.get("tables.nested", 0) + 1
            if scn["default"] is not None and any(owner(prefixes, SM.op_from_json(o)[1]) is not None for o in scn["default"]["content"]):
                counters["tables.hidden_default_content"] = counters.get("tables.hidden_default_content", 0) + 1
            if prefixes and any(owner(prefixes, o[1]) is not None and o[0] == "store" for o in hist):
                nontrivial.add(storecheck.history_digest(repr(scn), hist))
            run_one(scn, hist, uni)
            if len(samples) < 1 and h == 1:
                samples.append({"table": label_of(scn), "history": [SM.op_to_json(o)[:2] for o in hist[:10]]})
    return {"evaluations": evaluations, "nontrivial": sorted(nontrivial),
            "violations": [v for lst in violations.values() for v in lst],
            "counters": counters, "samples": samples, "inconclusive": []}


def replay(spec):
    return run_shard(spec)


def finalize(m, tier, seed):
    inc = []
    for k in ("tables.two_component_prefix", "tables.nested", "tables.hidden_default_content", "to_root_key_checks",
              "reads_compared", "tables.0_mounts+default", "wild_phases"):
        if not m["counters"].get(k):
            inc.append("coverage class %s empty" % k)
    return {"inconclusive": inc}
