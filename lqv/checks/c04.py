"""C04 - cache transparency: a cache never changes what an evaluation returns.   (also the engine of C05)

Monitor: self-differential. Every evaluation of a history executed under a cache configuration is compared with the
outcome of the same evaluation under NoCache() (value or failure, volatility, final state variables, file name,
extension).  The recording proxy counts hits, so a configuration that never hits is reported as vacuous, not as held.
C05 adds an inspection step after every evaluation (what the cache serves for every key it lists and for every
canonical / as-typed spelling evaluated so far).
"""
import random

PROPERTY = "C04"
LEVEL = "exploration"
RULE = ("for each of 17 cache configurations: seeded histories of ~12 events over a family of related queries (a target "
        "query of the C01 vocabulary incl. failing, volatile, cache-disabling commands and in-place mutators; its prefixes, "
        "extensions, link sub-queries and an as-typed respelling): evaluate plain / with injected input / with extra "
        "parameters, remove(key), clean(). EVERY evaluation is compared with its NoCache outcome. Evaluations = evaluations "
        "compared; non-trivial = the evaluation was served at least partly from the cache (hit observed by the recorder); "
        "distinct = distinct (configuration, history index, step).")
ASSUMPTIONS = ["commands are deterministic functions of their inputs, so the NoCache outcome is the reference",
               "C01 ties the NoCache outcome to the reference interpreter"]
SHARD_TIMEOUT = {"quick": 1200, "thorough": 7200}
MODE = "C04"


class Recorder:
    """recording proxy around the cache under test (forwards everything, counts hits / misses / stores)"""

    def __init__(self, inner):
        self.inner = inner
        self.hits = self.misses = self.stores = self.removes = self.accepted = 0

    def get(self, key):
        r = self.inner.get(key)
        if r is None:
            self.misses += 1
        else:
            self.hits += 1
        return r

    def get_metadata(self, key):
        return self.inner.get_metadata(key)

    def store(self, state):
        self.stores += 1
        r = self.inner.store(state)
        if r:
            self.accepted += 1
        return r

    def store_metadata(self, metadata):
        return self.inner.store_metadata(metadata)

    def remove(self, key):
        self.removes += 1
        return self.inner.remove(key)

    def contains(self, key):
        return self.inner.contains(key)

    def keys(self):
        return self.inner.keys()

    def clean(self):
        return self.inner.clean()

    def __repr__(self):
        return "Recorder(%r)" % (self.inner,)


def shards(tier, seed):
    from lqv.cachecfg import ALL_KINDS, FILE_BACKED

    out = []
    reps = 1 if tier == "quick" else 8
    for kind in ALL_KINDS:
        n = 14 if tier == "quick" else 40
        if kind in FILE_BACKED or kind.startswith("sql"):
            n = max(6, n // 2)
        for r in range(reps):
            out.append({"kind": kind, "n": n, "rep": r})
    return out


PINNED = ["one/tag-~X~/mk-tuple-2~E/ident", "mk-dict-2/setkey-z-~X~/mk-pairs-3~E/ident",
          # a variable JSON cannot write at all: such results are simply not kept by serialising caches
          "one/tag-~X~/mk-set-2~E/ident", "one/tag-~X~/mk-bytes-2~E/cat-x",
          # lists holding tuples / non-JSON members (lists are filed by the default, pickling, state type)
          "mk-pairs-2/ident", "mk-list-1/push-~X~/mk-set-1~E/ident",
          # a dictionary JSON cannot write at all (it holds a set): not kept, never served as something else
          "mk-dict-1/setkey-s-~X~/mk-set-2~E/ident",
          # downstream of a volatile step, an action whose link argument points to a perfectly cacheable query
          "one/vol/cat-~X~/one/add-10~E/ident", "lit-a/vol/ident/cat-b-~X~ident~E"]


def gen_history(rnd, g, kind="", pinned=None):
    from lqv import evalcache as E

    base = pinned
    if ("if_contains" in kind or "if_attribute_equal" in kind) and rnd.random() < 0.75:
        # conditional caches admit only results carrying the capitalised attribute: make them reachable
        g._numeric_prefix = False
        base = g.action(0, 0, True) + "/attr_up/" + g.query(0, first=False, max_len=3)
    if "if_not_contains(abc)" in kind and rnd.random() < 0.6:
        # a prefix the condition refuses (lower-case attribute of its last command) with admitted extensions
        g._numeric_prefix = False
        base = g.action(0, 0, True) + rnd.choice(["/attr_low/", "/attr_low/", "/attr_false/"]) + g.query(0, first=False, max_len=3)
    if base is None and rnd.random() < 0.25:
        # values of every built-in state type (what serialising caches have to round-trip)
        base = rnd.choice(["mk-tuple-3/ident", "mk-pairs-2/ident", "mk-set-2/ident", "mk-df-2/ident", "mk-bytes-3/ident",
                           "mk-nested/ident", "mk-none/ident", "mk-float-3/ident", "mk-text-2/ident", "mk-dict-2/ident",
                           "mk-udict-2/ident", "mk-udict-1/setkey-beta-v", "mk-inf-2/ident", "mk-inf-1/ident", "mk-nan/ident",
                           "mk-dict-1/setkey-big-~X~/mk-inf~E"])
        base += "/" + g.query(0, first=False, max_len=2)
    if base is None and rnd.random() < 0.1:
        # a step that switches caching off / makes the result volatile, followed by steps that look as if they undid it
        g._numeric_prefix = False
        base = "%s/%s/%s/%s" % (g.action(0, 0, True), rnd.choice(["nocache", "vol", "nocache/ident", "vol/cat-v"]),
                                rnd.choice(["recache", "nonvol", "recache/nonvol", "nonvol/recache", "cat-~X~/one/add-10~E", "cat-~X~/lit-a/cat-b~E-t",
                                            "cat-~X~ident~E"]), g.query(0, first=False, max_len=2))
    if base is None and rnd.random() < 0.08:
        # state variables holding values of every kind (they travel in the caches' metadata)
        base = "one/tag-~X~/%s~E/%s" % (rnd.choice(["mk-tuple-2", "mk-list-2", "mk-dict-2", "mk-text-2", "mk-float-3", "mk-none", "mk-nested",
                                                   "mk-set-2", "mk-bytes-3", "mk-inf", "mk-set-1", "mk-bytes-1"]),
                                       g.query(0, first=False, max_len=2))
    fam = E.family(rnd, g, base=base)
    events = []
    n = rnd.randint(8, 14)
    for _ in range(n):
        r = rnd.random()
        q = rnd.choice(fam)
        if r < 0.62:
            events.append({"ev": "eval", "q": q})
        elif r < 0.72:
            # other ways of asking for the same evaluation: a debugging context, the cache handed to the call,
            # the query spelled as an absolute path
            v = rnd.choice(["debug", "cache_arg", "absolute"])
            if v == "absolute":
                events.append({"ev": "eval", "q": q if q.startswith(("/", "-R", "res.txt", "dir/", "nokey")) else "/" + q})
            else:
                events.append({"ev": "eval", "q": q, "via": v})
        elif r < 0.80:
            events.append({"ev": "eval", "q": q, "input": rnd.randrange(len(E.INPUTS))})
        elif r < 0.86:
            events.append({"ev": "eval", "q": q, "extra": rnd.choice([["5"], ["x"], {"y": "4"}, {"a": "w"}, [], {}])})
        elif r < 0.95:
            events.append({"ev": "remove", "q": q})
        else:
            events.append({"ev": "clean"})
    if rnd.random() < 0.6:
        # plain, then with extra parameters / an input value, then plain again: the middle one must leave no trace
        q = rnd.choice(fam)
        special = [x for x in fam if x.split("/")[-1] in ("attr_low", "attr_up", "ident")]
        if special and rnd.random() < 0.6:
            q = rnd.choice(special)
        if rnd.random() < 0.5:
            mid = {"extra": {"nope": "1"}}   # a keyword nobody consumes: the evaluation succeeds, volatile
        else:
            mid = rnd.choice([{"extra": rnd.choice([["5"], {"y": "4"}, {"a": "w"}])}, {"input": rnd.randrange(len(E.INPUTS))}])
        at = rnd.randrange(len(events) + 1)
        events[at:at] = [{"ev": "eval", "q": q}, dict({"ev": "eval", "q": q}, **mid), {"ev": "eval", "q": q}]
    return fam, events


def run_history(env, kind, fam, events, scratch, viol, stats, mode):
    from liquer.parser import parse
    from lqv import cachecfg, evalcache as E

    built = cachecfg.build(kind, scratch)
    rec = Recorder(built.cache)
    spellings = set()
    for step, e in enumerate(events):
        if e["ev"] == "clean":
            try:
                rec.clean()
            except Exception as ex:
                viol("clean_raises", "%s: clean() raised %r" % (kind, ex), step)
            continue
        q = e["q"]
        try:
            canon = parse(q).encode()
        except Exception:
            continue
        if e["ev"] == "remove":
            try:
                rec.remove(canon)
            except Exception as ex:
                viol("remove_raises", "%s: remove(%r) raised %r" % (kind, canon, ex), step)
            continue
        ref = env.reference(q, e.get("input"), e.get("extra"))
        h0 = rec.hits
        got, st, log = env.evaluate(q, e.get("input"), e.get("extra"), cache=rec, via=e.get("via", "plain"))
        if ref is None or got is None:
            continue
        stats["evaluations"] += 1
        hit = rec.hits > h0
        if hit:
            stats["with_hit"] += 1
            stats["nontrivial"].add("%s/%s/%d" % (kind, stats["hist_id"], step))
        if mode == "C04" and e.get("input") is None and not e.get("extra") and got is not None and got.get("ok"):
            # the reference above is the evaluator itself without a cache; whether a result is volatile is also known from
            # the plain composition (downstream of a volatile command, whatever labels follow)
            o2 = env.interp(q)
            if o2 is not None and o2.ok and bool(o2.volatile) != bool(got.get("volatile")):
                viol("volatility_differs_from_composition", "%s: step %d evaluate(%r): reported volatile=%r, downstream of a volatile command: %r" % (
                    kind, step, q, got.get("volatile"), bool(o2.volatile)), step)
        if mode == "C04":
            for field, detail in E.compare_outcomes(ref, got, env, q):
                viol(field, "%s: step %d evaluate(%r, input=%r, extra=%r)%s: %s" % (
                    kind, step, q, None if e.get("input") is None else E.INPUTS[e["input"]], e.get("extra"),
                    " [cache hit]" if hit else "", detail), step)
        spellings.add(q)
        spellings.add(canon)
        for x in E.prefixes_of(q) + E.link_queries_of(q):
            spellings.add(x)
        if mode == "C05":
            E.inspect_cache(env, rec, spellings, lambda k, d, key: viol(k, "%s: after step %d evaluate(%r%s): %s" % (
                kind, step, q, "" if e.get("input") is None and not e.get("extra") else ", input/extra", d), step), kind)
    stats["hits." + kind] = stats.get("hits." + kind, 0) + rec.hits
    stats["accepted." + kind] = stats.get("accepted." + kind, 0) + rec.accepted


def run_shard(spec, mode=None):
    from lqv import evalcache as E
    from lqv.gen.query import QGen

    mode = mode or MODE
    env = E.Env()
    scratch = spec["scratch"]
    violations = {}
    samples = []
    stats = {"evaluations": 0, "with_hit": 0, "nontrivial": set(), "hist_id": 0}

    def make_viol(kind, fam, events):
        def viol(what, detail, step):
            sig = "%s|%s" % (mode, what)
            lst = violations.setdefault(sig, [])
            if len(lst) < 3:
                lst.append({"sig": sig, "what": detail[:1200],
                            "witness": {"kind": kind, "family": fam, "events": events if step is None else events[:step + 1]}})
        return viol

    if "replay" in spec:
        w = spec["replay"]
        run_history(env, w["kind"], w["family"], w["events"], scratch, make_viol(w["kind"], w["family"], w["events"]), stats, mode)
    else:
        kind = spec["kind"]
        rnd = random.Random("%s/%s/%s/%s" % (spec["seed"], mode, kind, spec["rep"]))
        g = QGen(rnd, allow_fail=True, allow_volatile=True, allow_mutators=True, max_len=4)
        g.avoid_none_default = True
        if spec["rep"] == 0:
            # fixed short histories: a result labelled with a file name whose format is not its type's own, asked for twice
            for j, pq in enumerate(["mk-pairs-2/res.json", "mk-pairs-2/filename-w.json/ident", "mk-tuple-2/ident/t.json", "mk-list-1/push-~X~/mk-tuple-2~E/l.json",
                                    "mk-df-2/frame.csv", "mk-dict-2/d.txt", "lit-abc/t.json", "mk-bytes-2/b.txt",
                                    "lit-a/vol/cat-b/v.txt", "one/vol/w.json", "one/nocache/add-2/n.txt",
                                    "lit-%EF%BB%BFbom/ident", "lit-%EF%BB%BF%EF%BB%BFx/cat-%0A", "lit-~.lead/cat-tail~.",
                                    # an in-place mutator downstream of a cached value made of containers within containers
                                    "mk-tlist-2/deepmut", "mk-matrix-2/deepmut/ident", "mk-lod-2/deepmut", "mk-nested/deepmut",
                                    # longer than any key width a back-end may assume; its last prefixes share 2000 characters
                                    "lit-a/" + "/".join("cat-%s%02d" % ("x" * 150, jj) for jj in range(14))]):
                stats["hist_id"] = "%s.fixed%d" % (spec["rep"], j)
                pf = E.prefixes_of(pq)
                fam = [pq] + pf[1:]
                events = [{"ev": "eval", "q": pq}, {"ev": "eval", "q": pq}, {"ev": "eval", "q": pf[-1] if pf else pq},
                          {"ev": "eval", "q": pq}]
                if len(pf) > 2:
                    events += [{"ev": "eval", "q": pf[1]}, {"ev": "eval", "q": pf[2]}, {"ev": "eval", "q": pf[1] + "/cat-z"}, {"ev": "eval", "q": pq}]
                run_history(env, kind, fam, events, scratch, make_viol(kind, fam, events), stats, mode)
        npinned = len(PINNED) if spec["rep"] == 0 else 0
        for h in range(npinned + spec["n"]):
            stats["hist_id"] = "%s.%d" % (spec["rep"], h)
            # the first histories of every configuration are built on fixed queries (values JSON has no native form for, ...)
            fam, events = gen_history(rnd, g, kind, pinned=PINNED[h] if h < npinned else None)
            run_history(env, kind, fam, events, scratch, make_viol(kind, fam, events), stats, mode)
            if not samples and h == 1:
                samples.append({"kind": kind, "family": fam[:6], "events": events[:8]})
    counters = dict(env.counters)
    counters["evaluations_with_cache_hit"] = stats["with_hit"]
    for k, v in stats.items():
        if k.startswith(("hits.", "accepted.")):
            counters[k] = v
    return {"evaluations": stats["evaluations"], "nontrivial": sorted(stats["nontrivial"]),
            "violations": [v for lst in violations.values() for v in lst],
            "counters": counters, "samples": samples, "inconclusive": []}


def replay(spec):
    return run_shard(spec)


def finalize(m, tier, seed):
    from lqv.cachecfg import ALL_KINDS

    inc = []
    vac = []
    for k in ALL_KINDS:
        if ("hits." + k) not in m["counters"]:
            inc.append("configuration %s never exercised" % k)
        elif m["counters"]["hits." + k] == 0:
            vac.append(k)
    if vac:
        inc.append("no cache hit observed for %s (transparency vacuous there)" % ", ".join(vac))
    return {"inconclusive": inc}
