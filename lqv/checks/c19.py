"""C19 - relative resource paths resolve like POSIX path normalisation.

Monitors: icontract post-conditions on the real ``ResourceQuerySegment.to_absolute`` and ``Query.to_absolute``
against a component-list model (anchoring on a leading '.'/'..', '.' vanishes, '..' pops, climbing above the root is
rejected), plus untouched-segment and idempotence conditions; the driver observes the opposite direction (model accepts,
code raises).
"""
import itertools
import random

PROPERTY = "C19"
LEVEL = "exploration"
RULE = ("all directories of depth 0-4 over two names (31) x all resource paths of <= N components over {a, b, ., .., x.y, ..data, ...} "
        "(exhaustive; N=4 quick, 5 thorough) through ResourceQuerySegment.to_absolute, plus seeded random queries with 1-3 "
        "resource segments of different names, headers with parameters and trailing transformations through "
        "Query.to_absolute with resource_segment_name in {'', other, None}. Non-trivial = the path contains '.' or '..'; "
        "distinct = distinct (directory, query, segment-name) triples.")
ASSUMPTIONS = ["directory argument is an absolute key without '.'/'..' (as documented)"]
SHARD_TIMEOUT = {"quick": 600, "thorough": 3600}

NAMES = ["a", "b", ".", "..", "x.y", "..data", "..."]


class Reject(Exception):
    pass


def model(dir_parts, path_parts):
    if not path_parts:
        return []
    stack = []
    seq = list(path_parts)
    if seq[0] in (".", ".."):
        stack = list(dir_parts)
    for c in seq:
        if c == ".":
            continue
        if c == "..":
            if not stack:
                raise Reject()
            stack.pop()
            continue
        stack.append(c)
    return stack


def dirs():
    out = [""]
    for d in range(1, 5):
        for combo in itertools.product(["d1", "d2"], repeat=d):
            out.append("/".join(combo))
    return out


def shards(tier, seed):
    N = 4 if tier == "quick" else 5
    m = 12 if tier == "quick" else 32
    out = [{"kind": "paths", "N": N, "part": k, "parts": m} for k in range(m)]
    m2 = 4 if tier == "quick" else 16
    per = 1500 if tier == "quick" else 12000
    out += [{"kind": "queries", "n": per, "part": k} for k in range(m2)]
    if tier == "thorough":
        out.append({"kind": "under_tests"})
    return out


def install_contracts(mon):
    import liquer.parser as P
    from lqv import qstruct

    def split_dir(path):
        if isinstance(path, str):
            return [x for x in path.split("/") if x != ""] if path else []
        return [x.encode() for x in path]

    def seg_model(self, path, result):
        d = split_dir(path)
        p = [x.encode() for x in (self.query or [])]
        try:
            want = model(d, p)
        except Reject:
            return {"dir": "/".join(d), "path": "/".join(p), "want": "rejection", "got": result.path()}
        got = [x.encode() for x in (result.query or [])]
        if got != want:
            return {"dir": "/".join(d), "path": "/".join(p), "want": "/".join(want), "got": "/".join(got)}
        if qstruct.header(result.header) != qstruct.header(self.header):
            return {"dir": "/".join(d), "path": "/".join(p), "header_changed": [qstruct.header(self.header), qstruct.header(result.header)]}

    mon.install(P.ResourceQuerySegment, "to_absolute", [("ResourceQuerySegment.to_absolute.model", seg_model)])

    raw_seg_abs = None

    def query_untouched(self, path, resource_segment_name, result):
        if len(result.segments) != len(self.segments) or bool(result.absolute) != bool(self.absolute):
            return {"query": self.encode(), "result": result.encode(), "why": "segment count / absoluteness changed"}
        d = split_dir(path)
        for s, r in zip(self.segments, result.segments):
            if isinstance(s, P.ResourceQuerySegment) and (resource_segment_name is None or resource_segment_name == s.segment_name()):
                p = [x.encode() for x in (s.query or [])]
                try:
                    want = model(d, p)
                except Reject:
                    return {"query": self.encode(), "dir": path, "want": "rejection", "got": result.encode()}
                if not isinstance(r, P.ResourceQuerySegment) or [x.encode() for x in (r.query or [])] != want or \
                        qstruct.header(r.header) != qstruct.header(s.header):
                    return {"query": self.encode(), "dir": path, "segment": s.encode(), "want": "/".join(want), "got": r.encode()}
            else:
                if qstruct.segment(s) != qstruct.segment(r):
                    return {"query": self.encode(), "dir": path, "untouched_segment_changed": [s.encode(), r.encode()]}

    mon.install(P.Query, "to_absolute", [("Query.to_absolute.model_and_untouched", query_untouched)])


def run_shard(spec):
    import hashlib
    from lqv.mon.contracts import Monitor, ContractRefuted
    import liquer.parser as P
    from lqv import qstruct

    if spec.get("kind") == "under_tests":
        from lqv import undertests

        r = undertests.run("C19", spec["scratch"])
        if r is None:
            return {"evaluations": 0, "inconclusive": ["test-suite run with contracts did not finish"]}
        v = [{"sig": "C19|under the repository's tests|" + x["contract"],
              "what": "contract refuted while the repository's own tests ran: %r" % (x["witness"],),
              "witness": {"kind": "segment", "dir": (x["witness"] or {}).get("dir", ""), "path": (x["witness"] or {}).get("path", "a")}} for x in r["records"][:5]]
        n = sum(r["counts"].values())
        return {"evaluations": n, "violations": v, "counters": {"contract_evals_under_repo_tests": n}}
    mon = Monitor("raise")
    install_contracts(mon)
    violations = {}
    counters = {"rejections_expected": 0, "rejections_seen": 0, "idempotence_checks": 0}
    evaluations = 0
    nontrivial = set()
    samples = []

    def viol(kind, what, witness):
        lst = violations.setdefault(kind, [])
        if len(lst) < 3:
            lst.append({"sig": "C19|" + kind, "what": what, "witness": witness})

    def mech(d, p):
        """coarse mechanism label from the observable shape of the failing input"""
        stack_empty_at_dot = False
        anchored = bool(p) and p[0] in (".", "..")
        return "anchored" if anchored else "unanchored"

    def one_segment(d, p, form):
        nonlocal evaluations
        evaluations += 1
        ptxt = "/".join(p)
        if any(c in (".", "..") for c in p):
            nontrivial.add(hashlib.sha1(("%s|%s|%s" % (d, ptxt, form)).encode()).hexdigest()[:12])
        qtext = {"R": "-R/" + ptxt, "rt": ptxt + "/-/dr", "Rt": "-R/" + ptxt + "/-/a-1/b.txt"}[form]
        try:
            q = P.parse(qtext)
        except Exception:
            counters["unparseable"] = counters.get("unparseable", 0) + 1
            return
        dparts = [x for x in d.split("/") if x]
        try:
            want = model(dparts, p)
            rej = False
        except Reject:
            rej = True
            counters["rejections_expected"] += 1
        w = {"kind": "segment", "dir": d, "path": ptxt, "form": form}
        try:
            res = q.to_absolute(d)
        except ContractRefuted as e:
            ww = e.witness
            k = "wrong_result"
            if ww.get("want") == "rejection":
                k = "climb_above_root_not_rejected"
            viol(k + "|" + mech(d, p), "dir %r path %r: %r" % (d, ptxt, ww), w)
            return
        except Exception as e:
            if rej:
                counters["rejections_seen"] += 1
            else:
                viol("raises_on_valid_path", "dir %r path %r raised %r, model gives %r" % (d, ptxt, e, "/".join(want)), w)
            return
        # idempotence
        counters["idempotence_checks"] += 1
        try:
            res2 = res.to_absolute(d)
            if qstruct.query(res2) != qstruct.query(res):
                viol("not_idempotent", "dir %r: %r -> %r -> %r" % (d, qtext, res.encode(), res2.encode()), w)
        except ContractRefuted as e:
            viol("not_idempotent", "dir %r: %r -> %r then contract %r" % (d, qtext, res.encode(), e.witness), w)
        except Exception as e:
            viol("not_idempotent", "dir %r: %r -> %r then raises %r" % (d, qtext, res.encode(), e), w)
        if len(samples) < 3 and evaluations % 401 == 3:
            samples.append({"dir": d, "query": qtext, "resolved": res.encode()})

    def one_query(w):
        nonlocal evaluations
        evaluations += 1
        d, qtext, name = w["dir"], w["query"], w["name"]
        nontrivial.add(hashlib.sha1(repr((d, qtext, name)).encode()).hexdigest()[:12])
        try:
            q = P.parse(qtext)
        except Exception:
            counters["unparseable"] = counters.get("unparseable", 0) + 1
            return
        dparts = [x for x in d.split("/") if x]
        rej = False
        for s in q.segments:
            if isinstance(s, P.ResourceQuerySegment) and (name is None or name == s.segment_name()):
                try:
                    model(dparts, [x.encode() for x in s.query])
                except Reject:
                    rej = True
        if rej:
            counters["rejections_expected"] += 1
        try:
            res = q.to_absolute(d, resource_segment_name=name)
        except ContractRefuted as e:
            ww = e.witness
            k = "wrong_result"
            if ww.get("want") == "rejection":
                k = "climb_above_root_not_rejected"
            if "untouched_segment_changed" in ww:
                k = "untouched_segment_changed"
            viol("query." + k, "dir %r query %r name %r: %r" % (d, qtext, name, ww), dict(w, kind="query"))
            return
        except Exception as e:
            if rej:
                counters["rejections_seen"] += 1
            else:
                viol("query.raises_on_valid_path", "dir %r query %r name %r raised %r" % (d, qtext, name, e), dict(w, kind="query"))
            return
        counters["idempotence_checks"] += 1
        try:
            res2 = res.to_absolute(d, resource_segment_name=name)
            if qstruct.query(res2) != qstruct.query(res):
                viol("query.not_idempotent", "dir %r: %r -> %r -> %r" % (d, qtext, res.encode(), res2.encode()), dict(w, kind="query"))
        except Exception as e:
            viol("query.not_idempotent", "dir %r: %r -> %r then %r" % (d, qtext, res.encode(), e), dict(w, kind="query"))
        # canonical text of the resolved query must be parseable (it is stored in recipes/metadata)
        try:
            if qstruct.query(P.parse(res.encode())) != qstruct.query(res):
                counters["resolved_text_reparses_differently"] = counters.get("resolved_text_reparses_differently", 0) + 1
        except Exception:
            counters["resolved_text_rejected"] = counters.get("resolved_text_rejected", 0) + 1

    kind = spec["kind"]
    if kind == "paths":
        idx = 0
        D = dirs()
        for n in range(1, spec["N"] + 1):
            for p in itertools.product(NAMES, repeat=n):
                if idx % spec["parts"] == spec["part"]:
                    for j, d in enumerate(D):
                        one_segment(d, list(p), ("R", "rt", "Rt")[(idx + j) % 3])
                idx += 1
    elif kind == "queries":
        rnd = random.Random("%s/C19/%s" % (spec["seed"], spec["part"]))
        D = dirs()
        for _ in range(spec["n"]):
            def rp():
                return "/".join(rnd.choice(NAMES + ["a", "c_1"]) for _ in range(rnd.randint(1, 4)))
            segs = []
            nres = rnd.randint(1, 3)
            for i in range(nres):
                nm = rnd.choice(["", "", "other", "x"])
                par = rnd.choice(["", "", "-p", "-p-~X~a/b~E"])
                segs.append("-R%s%s/%s" % (nm, par, rp()))
                if rnd.random() < 0.5:
                    segs.append(rnd.choice(["-/a-1/b", "-q-x/c-~X~./k~E", "--ns/f/file.txt", "-/dr"]))
            if rnd.random() < 0.2:
                segs = [rp(), "-/dr"]
            q = ("/" if rnd.random() < 0.2 else "") + "/".join(segs)
            one_query({"dir": rnd.choice(D), "query": q, "name": rnd.choice(["", "", "other", None, "zz"])})
    elif kind == "replay":
        w = spec["replay"]
        if w.get("kind") == "query":
            one_query(w)
        else:
            one_segment(w["dir"], w["path"].split("/"), w.get("form", "R"))
    for k, v in mon.counts.items():
        counters["contract_evals." + k] = v
    return {"evaluations": evaluations, "nontrivial": sorted(nontrivial),
            "violations": [v for lst in violations.values() for v in lst], "counters": counters,
            "samples": samples, "inconclusive": []}


def replay(spec):
    return run_shard(dict(spec, kind="replay"))


def finalize(m, tier, seed):
    inc = []
    for k in ("contract_evals.ResourceQuerySegment.to_absolute.model", "contract_evals.Query.to_absolute.model_and_untouched",
              "rejections_expected", "idempotence_checks"):
        if not m["counters"].get(k):
            inc.append("monitor/coverage class %s empty" % k)
    return {"exhaustive": True,
            "exhaustive_subspaces": ["31 directories x all paths of <= %d components over %r" % (4 if tier == "quick" else 5, NAMES)],
            "inconclusive": inc}
