"""C12 - concurrent evaluations sharing a cache are serializable.

Monitor: the deterministic scheduler (lqv.sched) drives real threads through real Context.evaluate calls against one
shared cache; schedules are enumerated depth-first under a preemption bound at the granularity of individual cache
operations and, for file-backed caches, of individual mutating file-system operations (create/truncate, raw write,
rename, remove).  Oracle: every evaluation returns its solo (NoCache) outcome and, at quiescence, every value the cache
serves equals a fresh evaluation of its key.
"""
import random

PROPERTY = "C12"
LEVEL = "exploration"
RULE = ("scenarios of 2-3 overlapping queries (same query twice; query and extension; shared prefix; link sub-query; "
        "three-task mix; text, number, dictionary, bytes, list and data-frame values) x cache kinds usable from threads "
        "(memory, file, xor, fernet, store-backed nested/flat on memory and directory stores, SQL on a shared connection, "
        "memory+file); per (scenario, kind) all schedules with at most P preemptions (P=2 quick, 3 thorough) are enumerated "
        "depth-first up to a budget, branching only where the preempted operation's key is touched by another task. "
        "Evaluations = schedules executed; non-trivial = schedule with >= 1 preemption; distinct = distinct interleavings "
        "(hash of the (task, operation, key) trace). Beyond the depth-first budget, randomised schedules biased to switch at "
        "commit points (renames, writes, stores) are added, and directed schedules in which two writers of one key overlap "
        "inside their store operations at every file-operation offset.")
ASSUMPTIONS = ["between two yield points a task runs alone (one cache / file operation is atomic w.r.t. the others)",
               "operations on keys no other task touches commute (no branching there)"]
SHARD_TIMEOUT = {"quick": 900, "thorough": 5400}

SCENARIOS = {
    "same_query": ["lit-a/cat-x", "lit-a/cat-x"],
    "query_and_extension": ["lit-a/cat-x", "lit-a/cat-x/cat-y"],
    "shared_prefix": ["lit-a/cat-x", "lit-a/cat-y"],
    "link_subquery": ["lit-a/cat-x", "one/cat-~X~/lit-a/cat-x~E"],
    "relative_link": ["lit-a/cat-x", "lit-a/cat-~X~cat-x~E"],
    "three_tasks": ["lit-a/cat-x", "lit-a/cat-y", "lit-a/cat-x/cat-z"],
    "three_tasks_same_list": ["mk-list-2/push-a", "mk-list-2/push-a", "mk-list-2/push-a/push-b"],
    "three_tasks_same_text": ["lit-a/cat-x", "lit-a/cat-x", "lit-a/cat-x/cat-y"],
    "numbers": ["one/add-1", "one/add-1/add-2"],
    "dictionary": ["mk-dict-2/setkey-k-v", "mk-dict-2/setkey-k-v/ident"],
    "bytes": ["mk-bytes-3/ident", "mk-bytes-3/ident/cat-q"],
    "list": ["mk-list-2/push-a", "mk-list-2/push-a/push-b"],
    "frame": ["mk-df-2/dfcol-c", "mk-df-2/dfcol-c/ident"],
    # a warm entry read by one task while another task's volatile evaluation (extra parameters) removes it
    "warm_read_vs_remove": {"warm": ["lit-a/cat-x"], "tasks": ["lit-a/cat-x/cat-y", {"q": "lit-a/cat-x", "extra": {"nope": "1"}}]},
    "warm_read_vs_remove_list": {"warm": ["mk-list-2/push-a"], "tasks": ["mk-list-2/push-a/push-b", {"q": "mk-list-2/push-a", "extra": {"nope": "1"}}]},
    "volatile_mix": ["lit-a/vol/cat-x", "lit-a/cat-x"],
    "failing_mix": ["lit-a/boom", "lit-a/cat-x"],
}
QUICK_SCENARIOS = ["same_query", "query_and_extension", "shared_prefix", "link_subquery", "three_tasks", "bytes", "dictionary",
                   "three_tasks_same_list", "three_tasks_same_text", "warm_read_vs_remove", "warm_read_vs_remove_list"]


def shards(tier, seed):
    from lqv.cachecfg import THREAD_USABLE

    out = []
    scen = QUICK_SCENARIOS if tier == "quick" else list(SCENARIOS)
    for kind in THREAD_USABLE:
        kscen = scen
        if tier == "quick" and kind in ("xor", "fernet"):
            # the encrypting variants share every line of the file cache but encode/decode: a few scenarios on every change
            kscen = ["same_query", "three_tasks_same_text", "warm_read_vs_remove", "bytes"]
        for sc in kscen:
            out.append({"kind": kind, "scenario": sc, "bound": 2 if tier == "quick" else 3,
                        "budget": 40 if tier == "quick" else 300})
        # the same evaluations arriving through the web service (a threaded server calls serve() per request)
        for sc in (["query_and_extension"] if tier == "quick" else ["query_and_extension", "shared_prefix", "link_subquery", "bytes"]):
            out.append({"kind": kind, "scenario": sc, "via": "serve", "bound": 2 if tier == "quick" else 3,
                        "budget": 25 if tier == "quick" else 150})
    return out


def run_scenario(env, kind, scenario, scratch, bound, budget, viol, stats, only_schedule=None, via="evaluate"):
    warm = []
    if isinstance(scenario, dict):
        warm = list(scenario.get("warm", []))
        scenario = scenario["tasks"]
    tasks = [t if isinstance(t, dict) else {"q": t} for t in scenario]
    queries = [t["q"] for t in tasks]
    extras = [t.get("extra") for t in tasks]
    import hashlib
    import os
    import shutil
    from liquer.cache import set_cache
    from liquer.context import Context
    from lqv import cachecfg, evalcache as E, sched, crash, vocab, refinterp as R

    client = None
    if via == "serve":
        from urllib.parse import quote
        from liquer.cache import NoCache
        from lqv.checks.c20 import make_app

        client = make_app().test_client()

        def served(q):
            r = client.get("/liquer/q/" + quote(q))
            return {"ok": 200 <= r.status_code < 300, "value": r.data, "volatile": False, "vars": {}, "filename": None,
                    "extension": None, "msg": "HTTP %d" % r.status_code}

        set_cache(NoCache())
        refs = [served(q) for q in queries]
    else:
        refs = [env.reference(q, None, x) for q, x in zip(queries, extras)]
    file_backed = kind in ("file", "xor", "fernet", "store_file_nested", "store_file_flat", "memory+file")
    ref = [None]
    interleavings = set()
    touched = {}

    policy_box = [None]

    def run_schedule(prefix):
        d = os.path.join(scratch, "run")
        shutil.rmtree(d, ignore_errors=True)
        os.makedirs(d)
        built = cachecfg.build(kind, d)
        sc = sched.SchedCache(built.cache, ref)
        set_cache(sc)
        for wq in warm:   # sequential warm-up, no scheduling
            try:
                Context().evaluate(wq)
            except Exception:
                pass
        s = sched.Scheduler(len(queries), schedule=prefix, policy=policy_box[0])
        ref[0] = s
        if file_backed:
            crash.install(d)
            crash._S["root"] = os.path.abspath(d)
            crash._S["target"] = None
            crash._S["on_event"] = lambda k, p, n: s.yield_point("fs:" + k, p)
            crash._S["reads"] = True
            crash._S["active"] = True

        def mk(q, extra=None):
            if via == "serve":
                return lambda: served(q)

            def f():
                try:
                    st = Context().evaluate(q, extra_parameters=extra)
                    return E.outcome_of(st, None)
                except Exception as e:
                    return E.outcome_of(None, e)
            return f

        vocab.use_log([])
        try:
            s.run([mk(q, x) for q, x in zip(queries, extras)])
        finally:
            crash._S["active"] = False
            crash._S["on_event"] = None
            ref[0] = None
        s.cache = built.cache
        return s

    def branch_ok(pend, last, alt):
        if pend is None:
            return True
        op, key = pend
        if op in ("keys", "clean", "start", "done") or op.startswith("fs:"):
            return True
        others = set()
        for t, ks in touched.items():
            if t != last:
                others |= ks
        return key in others or not touched

    # a first serial run collects which keys each task touches
    first = run_schedule(only_schedule or [])
    for (t, op, key) in first.trace:
        touched.setdefault(t, set()).add(key)
    def all_runs():
        if only_schedule is not None:
            yield first
            return
        for s in sched.explore(run_schedule, bound, budget, branch_ok):
            yield s
        # randomised schedules biased to switch at commit points (renames, writes, stores): beyond the DFS budget
        import random as _random

        rnd = _random.Random("%s/%s/%s/%s" % (stats.get("seed", 0), kind, stats["scenario"], via))
        critical = ("fs:rename", "fs:write", "fs:open_write", "fs:open_read", "fs:remove", "store", "store_metadata", "remove")

        def policy(enabled, last, pend):
            if last is None or last not in enabled:
                return rnd.choice(list(enabled))
            p = 0.5 if (pend is not None and pend[0] in critical) else (0.25 if pend is not None and pend[0] in ("get", "start") else 0.05)
            if len(enabled) > 1 and rnd.random() < p:
                return rnd.choice([t for t in enabled if t != last])
            return last

        policy_box[0] = policy
        try:
            for _ in range(max(10, budget if stats.get("tier") == "thorough" else budget // 2) if file_backed else max(5, budget // 4)):
                yield run_schedule([])
        finally:
            policy_box[0] = None
        # directed schedules: two writers of one key overlap inside their store operations.  Task a is held just before
        # its store of K, task b is run k yield points into its own store of K, then a completes, then b.
        stored_keys = sorted({str(key).lstrip("/") for (t, op, key) in first.trace if op == "store"})
        ntasks = len(queries)
        op_pairs = [("store", "store"), ("get", "store")]
        if stats.get("tier") == "thorough":
            op_pairs += [("store", "get"), ("store_metadata", "store"), ("store", "store_metadata"), ("get", "store_metadata"), ("remove", "store"), ("store", "remove")]
        for K in stored_keys:
          for (opa, opb) in op_pairs:
            for a in range(ntasks):
                for b in range(ntasks):
                    if a == b:
                        continue
                    for k in range(0, 40):
                        st = {"phase": 0, "inside": False, "n": 0, "reached": False}

                        def directed(enabled, last, pend, st=st, a=a, b=b, K=K, k=k, opa=opa, opb=opb):
                            def is_op(p, op):
                                return p is not None and p[0] == op and str(p[1]).lstrip("/") == K
                            if st["phase"] == 0:
                                if last == a and is_op(pend, opa):
                                    st["phase"] = 1
                                    return b if b in enabled else a
                                return a if a in enabled else enabled[0]
                            if st["phase"] == 1:
                                if last == b and b in enabled:
                                    if st["inside"]:
                                        if pend is None or not str(pend[0]).startswith("fs:"):
                                            st["phase"] = 2      # b left its operation before k points
                                            return a if a in enabled else b
                                        st["n"] += 1
                                    elif is_op(pend, opb):
                                        st["inside"] = True
                                    if st["inside"] and st["n"] >= k:
                                        st["phase"] = 2
                                        st["reached"] = True
                                        return a if a in enabled else b
                                    return b
                                if b in enabled:
                                    return b
                                st["phase"] = 2
                            if a in enabled:
                                return a
                            return b if b in enabled else enabled[0]

                        policy_box[0] = directed
                        try:
                            sch = run_schedule([])
                        finally:
                            policy_box[0] = None
                        if not st["reached"]:
                            break          # a never does opa on K, b never opb on K, or b's operation has fewer than k points
                        stats["directed"] = stats.get("directed", 0) + 1
                        yield sch
                        if not file_backed:
                            break          # without file operations there is one point only

        # directed schedules, second family: task a is stopped k file-operation points INSIDE its store of K, every other
        # task then runs to completion one after the other (it sees the half-written entry), then a finishes
        if file_backed:
            for K in stored_keys:
                for a in range(ntasks):
                    for order in ([None] if ntasks == 2 else [False, True]):
                        for k in range(1, 40):
                            st = {"phase": 0, "inside": False, "n": 0, "reached": False}
                            others = [t for t in range(ntasks) if t != a]
                            if order:
                                others.reverse()

                            def inside(enabled, last, pend, st=st, a=a, K=K, k=k, others=others):
                                if st["phase"] == 0:
                                    if last == a and a in enabled:
                                        if st["inside"]:
                                            if pend is None or not str(pend[0]).startswith("fs:"):
                                                st["phase"] = 1      # a left its store before k points
                                            else:
                                                st["n"] += 1
                                                if st["n"] >= k:
                                                    st["phase"] = 1
                                                    st["reached"] = True
                                        elif pend is not None and pend[0] == "store" and str(pend[1]).lstrip("/") == K:
                                            st["inside"] = True
                                    if st["phase"] == 0:
                                        return a if a in enabled else enabled[0]
                                for t in others:
                                    if t in enabled:
                                        return t
                                return a if a in enabled else enabled[0]

                            policy_box[0] = inside
                            try:
                                sch = run_schedule([])
                            finally:
                                policy_box[0] = None
                            if not st["reached"]:
                                break
                            stats["directed"] = stats.get("directed", 0) + 1
                            yield sch

        # third family (three tasks): a is stopped k points inside its store of K, b is run up to (not into) its own store
        # of K - it has then filed the final metadata of its evaluation - and c runs to completion in that window
        if file_backed and ntasks == 3 and (stats.get("tier") == "thorough" or kind in ("file", "store_file_nested")):
            import itertools

            for K in stored_keys:
                for (a, b, c) in itertools.permutations(range(3)):
                    for k in range(1, 40):
                        st = {"phase": 0, "inside": False, "n": 0, "reached": False}

                        def window(enabled, last, pend, st=st, a=a, b=b, c=c, K=K, k=k):
                            def is_store(p):
                                return p is not None and p[0] == "store" and str(p[1]).lstrip("/") == K
                            if st["phase"] == 0:
                                if last == a and a in enabled:
                                    if st["inside"]:
                                        if pend is None or not str(pend[0]).startswith("fs:"):
                                            st["phase"] = 1
                                        else:
                                            st["n"] += 1
                                            if st["n"] >= k:
                                                st["phase"] = 1
                                                st["reached"] = True
                                    elif is_store(pend):
                                        st["inside"] = True
                                if st["phase"] == 0:
                                    if a in enabled:
                                        return a
                                    st["phase"] = 1
                            if st["phase"] == 1:
                                if b in enabled and not (last == b and is_store(pend)):
                                    return b
                                st["phase"] = 2
                            if st["phase"] == 2:
                                if c in enabled:
                                    return c
                                st["phase"] = 3
                            for t in (b, a, c):
                                if t in enabled:
                                    return t
                            return enabled[0]

                        policy_box[0] = window
                        try:
                            sch = run_schedule([])
                        finally:
                            policy_box[0] = None
                        if not st["reached"]:
                            break
                        stats["directed"] = stats.get("directed", 0) + 1
                        yield sch

        # fourth family (three tasks): a has missed K and is held before its store of K; b evaluates and stores K completely;
        # c is run i points INTO its look-up of K (it has seen b's 'ready' metadata); a is then run j points into its store
        # (it has removed b's entry and not yet written its own); c completes, a completes
        if file_backed and ntasks == 3 and (stats.get("tier") == "thorough" or kind in ("file", "store_file_nested", "store_file_flat")):
            import itertools

            lim = 7 if stats.get("tier") == "thorough" else 4
            for K in stored_keys:
                for (a, b, c) in itertools.permutations(range(3)):
                    stop = False
                    for i in range(1, lim + 1):
                        for j in range(1, lim + 1):
                            st = {"phase": 0, "ci": 0, "cin": False, "aj": 0, "reached": False}

                            def nested(enabled, last, pend, st=st, a=a, b=b, c=c, K=K, i=i, j=j):
                                def is_op(p, op):
                                    return p is not None and p[0] == op and str(p[1]).lstrip("/") == K
                                if st["phase"] == 0:      # a up to (not into) its store of K
                                    if last == a and is_op(pend, "store"):
                                        st["phase"] = 1
                                    elif a in enabled:
                                        return a
                                    else:
                                        st["phase"] = 1
                                if st["phase"] == 1:      # b to completion
                                    if b in enabled:
                                        return b
                                    st["phase"] = 2
                                if st["phase"] == 2:      # c: i points into get(K)
                                    if c in enabled:
                                        if last == c:
                                            if st["cin"]:
                                                if pend is None or not str(pend[0]).startswith("fs:"):
                                                    st["phase"] = 3
                                                else:
                                                    st["ci"] += 1
                                                    if st["ci"] >= i:
                                                        st["phase"] = 3
                                                        st["reached"] = True
                                            elif is_op(pend, "get"):
                                                st["cin"] = True
                                        if st["phase"] == 2:
                                            return c
                                    else:
                                        st["phase"] = 3
                                if st["phase"] == 3:      # a: j points into its store
                                    if a in enabled:
                                        if last == a:
                                            st["aj"] += 1
                                            if st["aj"] > j or (pend is not None and not str(pend[0]).startswith("fs:") and st["aj"] > 1):
                                                st["phase"] = 4
                                        if st["phase"] == 3:
                                            return a
                                    else:
                                        st["phase"] = 4
                                for t in (c, a, b):
                                    if t in enabled:
                                        return t
                                return enabled[0]

                            policy_box[0] = nested
                            try:
                                sch = run_schedule([])
                            finally:
                                policy_box[0] = None
                            if not st["reached"]:
                                stop = True
                                break
                            stats["directed"] = stats.get("directed", 0) + 1
                            yield sch
                        if stop:
                            break

    for s in all_runs():
        stats["evaluations"] += 1
        h = hashlib.sha1(repr(s.trace).encode()).hexdigest()[:12]
        interleavings.add(h)
        chosen = s.chosen()
        pre = sched.preemptions(chosen, s.decisions)
        if pre >= 1:
            stats["nontrivial"].add("%s/%s/%s" % (kind, stats["scenario"], h))
        stats["max_preemptions"] = max(stats.get("max_preemptions", 0), pre)
        stats["yield_points"] = stats.get("yield_points", 0) + len(s.trace)
        w = {"kind": kind, "scenario": stats["scenario"], "schedule": chosen, "via": via}
        if s.stuck:
            stats["stuck"] = stats.get("stuck", 0) + 1
            continue
        for i, q in enumerate(queries):
            if s.errors[i] is not None:
                viol("task_crashed", "%s %s: task %d (%r) raised %r under schedule %r" % (kind, stats["scenario"], i, q, s.errors[i], chosen), w)
                continue
            for field, detail in E.compare_outcomes(refs[i], s.results[i]):
                if field in E.JSON_IMAGE_FIELDS:
                    continue    # C04's listed finding, independent of the schedule
                viol("evaluation_differs_from_solo_outcome." + field,
                     "%s %s: task %d evaluate(%r) under schedule %r: %s; trace tail %r" % (
                         kind, stats["scenario"], i, q, chosen, detail, s.trace[-8:]), w)
        keys = set()
        for q in queries:
            keys.update(E.prefixes_of(q))
            keys.update(E.link_queries_of(q))
        E.inspect_cache(env, s.cache, keys,
                        lambda k, d, key: None if k in E.JSON_IMAGE_FIELDS else viol("quiescent_cache." + k, "%s %s after schedule %r: %s" % (kind, stats["scenario"], chosen, d), w), kind)
    stats["interleavings"].update(interleavings)


def run_shard(spec):
    from lqv import evalcache as E

    env = E.Env()
    scratch = spec["scratch"]
    violations = {}
    stats = {"evaluations": 0, "nontrivial": set(), "interleavings": set(), "scenario": "", "seed": spec.get("seed", 0),
             "tier": spec.get("tier", "quick")}

    def viol(what, detail, w):
        sig = "C12|%s" % what
        lst = violations.setdefault(sig, [])
        if len(lst) < 2:
            lst.append({"sig": sig, "what": detail[:1200], "witness": w})

    if "replay" in spec:
        w = spec["replay"]
        stats["scenario"] = w["scenario"]
        run_scenario(env, w["kind"], SCENARIOS[w["scenario"]], scratch, 0, 1, viol, stats, only_schedule=w["schedule"], via=w.get("via", "evaluate"))
    else:
        stats["scenario"] = spec["scenario"]
        run_scenario(env, spec["kind"], SCENARIOS[spec["scenario"]], scratch, spec["bound"], spec["budget"], viol, stats, via=spec.get("via", "evaluate"))
        if spec.get("via") == "serve":
            env.count("served_runs", stats["evaluations"])
    counters = dict(env.counters)
    counters["yield_points"] = stats.get("yield_points", 0)
    counters["stuck_runs"] = stats.get("stuck", 0)
    counters["directed_store_overlap_runs"] = stats.get("directed", 0)
    counters["kind." + spec.get("kind", "replay")] = stats["evaluations"]
    return {"evaluations": stats["evaluations"], "nontrivial": sorted(stats["nontrivial"]),
            "violations": [v for lst in violations.values() for v in lst],
            "counters": counters, "samples": [{"kind": spec.get("kind"), "scenario": stats["scenario"],
                                                "distinct_interleavings": len(stats["interleavings"])}],
            "inconclusive": [], "sets": {"interleavings": ["%s/%s/%s" % (spec.get("kind"), stats["scenario"], h) for h in stats["interleavings"]]},
            "maxima": {"preemptions": stats.get("max_preemptions", 0)}}


def replay(spec):
    return run_shard(spec)


def finalize(m, tier, seed):
    from lqv.cachecfg import THREAD_USABLE

    inc = []
    for k in THREAD_USABLE:
        if not m["counters"].get("kind." + k):
            inc.append("cache kind %s never scheduled" % k)
    if m["counters"].get("stuck_runs", 0) > 0:
        inc.append("%d runs hit the watchdog" % m["counters"]["stuck_runs"])
    if not m["counters"].get("served_keys"):
        inc.append("quiescent inspection never saw a served key")
    if not m["counters"].get("served_runs"):
        inc.append("no scenario was driven through the web service")
    if m["maxima"].get("preemptions", 0) < 1:
        inc.append("no schedule with a preemption was executed")
    return {"inconclusive": inc, "distinct_interleavings": len(m["sets"].get("interleavings", []))}
