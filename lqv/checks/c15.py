"""C15 - overlay store: copy-on-write view that never touches the fall-back.

Monitors: reference-model monitor (the expected view is a plain StoreModel initialised with the fall-back content:
shadowed by writes, masked by removals) after every operation over the whole universe + fall-back immutability
snapshot compared after EVERY operation; after each history every key is also opened for writing through the overlay
(file-handle interface) and the fall-back snapshot compared once more.
"""
import random

PROPERTY = "C15"
LEVEL = "exploration"
RULE = ("fall-back pre-populated with 1-6 entries of a 9-key universe (files, nested directories, empty directories); "
        "seeded random well-formed histories of 8-30 operations through the overlay (store, both metadata-update styles, "
        "remove, makedir, empty and recursive removedir, re-creation after removal); memory and directory stores in either "
        "role (4 combinations); after each history every key is opened for writing through the overlay's file-handle interface "
        "and the fall-back snapshot compared again. Evaluations = operations applied; a history is non-trivial when it touches a key present in "
        "the fall-back; distinct = distinct (combination, fall-back content, history).")
ASSUMPTIONS = ["a removed key may read as 'raises' or as None (both are absence)",
               "well-formed histories only (model preconditions on the expected view)"]
SHARD_TIMEOUT = {"quick": 900, "thorough": 5400}

UNIVERSE = ["a", "a/b", "a/b/c.txt", "a/c.txt", "a/d.txt", "a/b.txt", "e.txt", "f", "f/g.json", "f/h", "f/h/g.json"]
COMBOS = ["memory|memory", "file|memory", "memory|file", "file|file"]


def shards(tier, seed):
    out = []
    reps = 4 if tier == "quick" else 16
    n = 120 if tier == "quick" else 400
    for combo in COMBOS:
        for r in range(reps):
            out.append({"combo": combo, "n": n if "file" not in combo else n // 2, "rep": r})
    return out


def make_case_factory(combo, fb_history, scratch):
    from lqv import storecfg
    from lqv.models import storemodel as SM
    from liquer.store import OverlayStore

    def make_case():
        cleanup = []
        a, b = combo.split("|")
        ov = storecfg.leaf(a, scratch, cleanup)
        fb = storecfg.leaf(b, scratch, cleanup)
        model = SM.StoreModel()
        for op in fb_history:
            model.apply(op)
            SM.apply_real(fb, op)
        store = OverlayStore(ov, fb)
        built = storecfg.Built(store, [ov, fb], cleanup=cleanup)
        fb_snap = storecfg.snapshot_leaf(fb)

        def extra(i, op, m):
            now = storecfg.snapshot_leaf(fb)
            if now != fb_snap:
                return [{"read": "fallback_snapshot", "key": op[1], "kind": "fallback_modified",
                         "detail": storecfg.diff_snap([fb_snap], [now]), "rel": "same"}]
            return []

        return built, model, extra

    return make_case


def run_shard(spec):
    from lqv import storecfg, storecheck
    from lqv.models import storemodel as SM

    scratch = spec["scratch"]
    violations = {}
    counters = {}
    nontrivial = set()
    samples = []
    evaluations = 0

    def run_one(combo, fbh, hist):
        nonlocal evaluations
        mk = make_case_factory(combo, fbh, scratch)
        v, steps, reads = storecheck.explore_case(PROPERTY, "overlay(%s)" % combo, mk, hist, UNIVERSE)
        evaluations += steps
        counters["ops." + combo] = counters.get("ops." + combo, 0) + steps
        counters["reads_compared"] = counters.get("reads_compared", 0) + reads
        counters["fallback_snapshots_compared"] = counters.get("fallback_snapshots_compared", 0) + steps
        v = v + write_handle_probe(combo, mk, fbh, hist)
        for x in v:
            lst = violations.setdefault(x["sig"], [])
            if len(lst) < 2:
                x["witness"].update({"combo": combo, "fallback": [SM.op_to_json(o) for o in fbh]})
                lst.append(x)

    def write_handle_probe(combo, mk, fbh, hist):
        """The file-handle interface: after the history, every key is opened for writing through the overlay
        (refusing is fine, and so is whatever the view shows afterwards); the only thing asserted is that the
        fall-back looks exactly as before."""
        built, model, extra = mk()
        out = []
        try:
            fb = built.leaves[1]
            try:
                for op in hist:
                    SM.apply_real(built.store, op)
            except Exception:
                return []
            before = storecfg.snapshot_leaf(fb)
            for k in UNIVERSE:
                for mode in ("w", "wb"):
                    counters["write_handles_tried"] = counters.get("write_handles_tried", 0) + 1
                    try:
                        with built.store.openbin(k, mode) as fh:
                            fh.write(b"written through a handle")
                        counters["write_handles_opened"] = counters.get("write_handles_opened", 0) + 1
                    except Exception:
                        pass
                    now = storecfg.snapshot_leaf(fb)
                    if now != before:
                        out.append({"sig": "C15|overlay(%s)|openbin for writing|fallback_modified" % combo,
                                    "what": "overlay(%s): openbin(%r, %r) and a write changed the fall-back store: %s" % (
                                        combo, k, mode, storecfg.diff_snap([before], [now])),
                                    "witness": {"label": "overlay(%s)" % combo, "history": [SM.op_to_json(o) for o in hist],
                                                "then": ["openbin", k, mode]}})
                        return out
        finally:
            built.close()
        return out

    if "replay" in spec:
        w = spec["replay"]
        run_one(w["combo"], [SM.op_from_json(o) for o in w["fallback"]], [SM.op_from_json(o) for o in w["history"]])
    else:
        combo = spec["combo"]
        rnd = random.Random("%s/C15/%s/%s" % (spec["seed"], combo, spec["rep"]))
        for h in range(spec["n"]):
            fbm = SM.StoreModel()
            fbh = SM.gen_history(rnd, fbm, UNIVERSE, rnd.randint(1, 6),
                                 weights={"store": 5, "makedir": 2}, tag="fb")
            model = fbm.clone()
            hist = SM.gen_history(rnd, model, UNIVERSE, rnd.randint(8, 30), tag="ov",
                                  weights={"store": 6, "store_rmw": 2, "store_metadata": 2, "store_metadata_rmw": 2, "remove": 4,
                                           "makedir": 2, "removedir": 2, "removedir_recursive": 2, "store_metadata_absent": 2,
                                           "removedir_nonempty": 1})
            fbkeys = set(fbm.files) | set(fbm.dirs)
            for o in hist:
                counters["opkind." + o[0]] = counters.get("opkind." + o[0], 0) + 1
            if any(o[1] in fbkeys for o in hist):
                nontrivial.add(storecheck.history_digest(combo, fbh + hist))
            # re-creation after removal coverage
            removed = set()
            for o in hist:
                if o[0] in ("remove", "removedir", "removedir_recursive"):
                    removed.add(o[1])
                elif o[0] in ("store", "makedir") and o[1] in removed:
                    counters["recreate_after_removal"] = counters.get("recreate_after_removal", 0) + 1
            run_one(combo, fbh, hist)
            if len(samples) < 1 and h == 2:
                samples.append({"combo": combo, "fallback": [SM.op_to_json(o)[:2] for o in fbh],
                                "history": [SM.op_to_json(o)[:2] for o in hist[:12]]})
    return {"evaluations": evaluations, "nontrivial": sorted(nontrivial),
            "violations": [v for lst in violations.values() for v in lst],
            "counters": counters, "samples": samples, "inconclusive": []}


def replay(spec):
    return run_shard(spec)


def finalize(m, tier, seed):
    inc = []
    for c in COMBOS:
        if not m["counters"].get("ops." + c):
            inc.append("combination %s never exercised" % c)
    for k in ("write_handles_tried", "recreate_after_removal", "fallback_snapshots_compared", "reads_compared", "opkind.removedir_recursive",
              "opkind.store_metadata", "opkind.store_metadata_rmw"):
        if not m["counters"].get(k):
            inc.append("coverage class %s empty" % k)
    return {"inconclusive": inc}
