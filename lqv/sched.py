"""Deterministic cooperative scheduler for real threads (DESIGN 3.5).

Every logical task is a real thread running the real code; a task blocks on its own semaphore and the scheduler
releases exactly one task at a time, which then runs alone until its next yield point (a cache operation of the
SchedCache proxy, or - for file-backed caches - a file-system operation seen by the interposer).  A schedule is the list
of task choices at the yield points; it is the replay artefact.  Exploration is stateless (CHESS-style): the scenario is
re-executed from a fresh cache for every schedule; schedules are enumerated depth-first under a preemption bound.
"""
import threading


class Scheduler:
    def __init__(self, ntasks, schedule=None, watchdog=60.0, policy=None):
        self.policy = policy   # callable(enabled, last, pending-of-last) -> task, used beyond the fixed schedule prefix
        self.n = ntasks
        self.sems = [threading.Semaphore(0) for _ in range(ntasks)]
        self.main = threading.Semaphore(0)
        self.schedule = list(schedule or [])
        self.done = [False] * ntasks
        self.results = [None] * ntasks
        self.errors = [None] * ntasks
        self.pending = [("start", "")] * ntasks
        self.trace = []        # (task, op, key) in execution order
        self.decisions = []    # (chosen task, enabled tasks, pending op of the previously running task)
        self.thread_task = {}
        self.watchdog = watchdog
        self.stuck = False

    # ---- called from task threads -------------------------------------------------
    def current_task(self):
        return self.thread_task.get(threading.get_ident())

    def yield_point(self, op, key):
        t = self.current_task()
        if t is None:
            return
        self.pending[t] = (op, key)
        self.main.release()
        self.sems[t].acquire()
        self.trace.append((t, op, key))

    def _body(self, i, fn):
        self.thread_task[threading.get_ident()] = i
        self.sems[i].acquire()
        try:
            self.results[i] = fn()
        except BaseException as e:  # noqa
            self.errors[i] = e
        finally:
            self.done[i] = True
            self.pending[i] = ("done", "")
            self.main.release()

    # ---- driver -------------------------------------------------------------------------
    def run(self, fns):
        threads = [threading.Thread(target=self._body, args=(i, f), daemon=True) for i, f in enumerate(fns)]
        for th in threads:
            th.start()
        last = None
        step = 0
        while not all(self.done):
            enabled = [i for i in range(self.n) if not self.done[i]]
            if step < len(self.schedule) and self.schedule[step] in enabled:
                choice = self.schedule[step]
            elif self.policy is not None:
                choice = self.policy(enabled, last, self.pending[last] if last is not None else None)
                if choice not in enabled:
                    choice = last if last in enabled else enabled[0]
            elif last is not None and last in enabled:
                choice = last            # default policy: no preemption
            else:
                choice = enabled[0]
            self.decisions.append((choice, tuple(enabled), self.pending[last] if last is not None else None, last))
            step += 1
            last = choice
            self.sems[choice].release()
            if not self.main.acquire(timeout=self.watchdog):
                self.stuck = True
                break
        return self.results, self.errors

    def chosen(self):
        return [d[0] for d in self.decisions]


def preemptions(chosen, decisions):
    """number of context switches away from a task that was still enabled"""
    n = 0
    for j in range(1, len(chosen)):
        prev = chosen[j - 1]
        if chosen[j] != prev and prev in decisions[j][1]:
            n += 1
    return n


def explore(run_schedule, bound, max_schedules, branch_ok=None):
    """Depth-first enumeration of schedules with at most ``bound`` preemptions.
    run_schedule(prefix) -> Scheduler (after the run). branch_ok(decision) -> bool limits where a preemption is tried.
    Yields every executed Scheduler."""
    seen = set()
    stack = [()]
    count = 0
    while stack and count < max_schedules:
        prefix = stack.pop()
        sch = run_schedule(list(prefix))
        chosen = tuple(sch.chosen())
        if chosen in seen:
            continue
        seen.add(chosen)
        count += 1
        yield sch
        if sch.stuck:
            continue
        # children: deviate at one later step
        for j in range(len(chosen) - 1, len(prefix) - 1, -1):
            ch, enabled, pend, last = sch.decisions[j]
            for alt in enabled:
                if alt == ch:
                    continue
                if last is not None and last in enabled and alt != last:
                    # this is a preemption of `last`
                    if branch_ok is not None and not branch_ok(pend, last, alt):
                        continue
                newp = chosen[:j] + (alt,)
                # count preemptions of the prefix using the recorded enabled sets (valid up to j)
                pre = 0
                for k in range(1, len(newp)):
                    if newp[k] != newp[k - 1] and newp[k - 1] in sch.decisions[k][1]:
                        pre += 1
                if pre <= bound and newp not in seen:
                    stack.append(newp)


class SchedCache:
    """cache proxy: every operation is a yield point"""

    def __init__(self, inner, sched_ref):
        self.inner = inner
        self.ref = sched_ref   # list holding the current Scheduler (swapped per run)

    def _y(self, op, key):
        s = self.ref[0]
        if s is not None:
            s.yield_point(op, key)

    def get(self, key):
        self._y("get", key)
        return self.inner.get(key)

    def get_metadata(self, key):
        self._y("get_metadata", key)
        return self.inner.get_metadata(key)

    def store(self, state):
        self._y("store", state.query)
        return self.inner.store(state)

    def store_metadata(self, metadata):
        self._y("store_metadata", metadata.get("query"))
        return self.inner.store_metadata(metadata)

    def remove(self, key):
        self._y("remove", key)
        return self.inner.remove(key)

    def contains(self, key):
        self._y("contains", key)
        return self.inner.contains(key)

    def keys(self):
        self._y("keys", "*")
        return self.inner.keys()

    def clean(self):
        self._y("clean", "*")
        return self.inner.clean()

    def __repr__(self):
        return "SchedCache(%r)" % (self.inner,)
