"""pytest plugin: runs the repository's own test-suite with the recording contracts switched on
(DESIGN 7.4).  Selected by LQV_CONTRACTS (comma separated property ids); results go to LQV_CONTRACTS_OUT."""
import json
import os

_mon = None


def pytest_configure(config):
    global _mon
    from lqv import boot

    boot.ensure_deps()
    from lqv.mon.contracts import Monitor

    _mon = Monitor("record")
    wanted = [x for x in os.environ.get("LQV_CONTRACTS", "").split(",") if x]
    if "C02" in wanted:
        from lqv.checks import c02

        c02.install_contract(_mon)
    if "C03" in wanted:
        from lqv.checks import c03

        c03.install_contracts(_mon)
    if "C19" in wanted:
        from lqv.checks import c19

        c19.install_contracts(_mon)
    if "C11" in wanted:
        from lqv.checks import c11

        c11.install_contracts(_mon, set())


def pytest_sessionfinish(session, exitstatus):
    out = os.environ.get("LQV_CONTRACTS_OUT")
    if out and _mon is not None:
        with open(out, "w") as f:
            json.dump({"counts": _mon.counts, "records": _mon.records[:100]}, f, default=repr)
