"""Position-free structure of parsed liquer queries (for comparing two parses)."""


def param(p):
    from liquer.parser import StringActionParameter, LinkActionParameter, ExpandedActionParameter, ResourceName

    if isinstance(p, StringActionParameter):
        return ["s", p.string]
    if isinstance(p, (LinkActionParameter, ExpandedActionParameter)):
        return ["l", query(p.link)]
    if isinstance(p, ResourceName):
        return ["r", p.name]
    return ["?", repr(p)]


def header(h):
    if h is None:
        return None
    return [h.level, h.name or "", bool(h.resource), [param(p) for p in h.parameters]]


def action(a):
    return [a.name, [param(p) for p in a.parameters]]


def segment(s):
    from liquer.parser import TransformQuerySegment, ResourceQuerySegment

    if isinstance(s, TransformQuerySegment):
        fn = s.filename
        return ["T", header(s.header), [action(a) for a in s.query], None if fn is None else str(fn)]
    if isinstance(s, ResourceQuerySegment):
        return ["R", header(s.header), [param(n) for n in (s.query or [])]]
    return ["?", repr(s)]


def query(q):
    return ["Q", bool(q.absolute), [segment(s) for s in q.segments]]
