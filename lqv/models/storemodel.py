"""Executable reference model of a liquer store (hierarchical bytes+metadata file system), the
well-formed history generator, and the comparison engine that checks every read of a key universe
against the model after every operation.

The same model serves plain stores and proxies (C07), overlays (C15: a view initialised from the fall-back
content), mount tables (C14: union of the parts with pinned mount-point directories) and read-only views (C17).
"""
import copy
import hashlib


def parent(k):
    return "/".join(k.split("/")[:-1])


def ancestors(k):
    out = []
    p = parent(k)
    while p != "":
        out.append(p)
        p = parent(p)
    return out


def name_of(k):
    return k.split("/")[-1]


class StoreModel:
    def __init__(self, files=None, dirs=None, pinned=None):
        self.files = dict(files or {})   # key -> (bytes, user-metadata dict)
        self.dirs = set(dirs or ())      # non-root directories
        self.pinned = set(pinned or ())  # directories that cannot be removed (mount points and their ancestors)
        self.meta_only = set()           # keys that received a metadata write while they had no data: everything about
                                         # them is unspecified except that no bytes may be served for them
        self.dirs |= self.pinned
        for k in list(self.files) + list(self.dirs):
            for a in ancestors(k):
                self.dirs.add(a)

    def clone(self):
        m = StoreModel(copy.deepcopy(self.files), set(self.dirs), set(self.pinned))
        m.meta_only = set(self.meta_only)
        return m

    # ---------------- view
    def exists(self, k):
        return k == "" or k in self.files or k in self.dirs

    def is_dir(self, k):
        return k == "" or k in self.dirs

    def children(self, k):
        out = []
        for x in list(self.files) + list(self.dirs):
            if parent(x) == k and x != "":
                out.append(name_of(x))
        return sorted(out)

    def descendants(self, k):
        pre = k + "/"
        return [x for x in list(self.files) + list(self.dirs) if x.startswith(pre)]

    def all_keys(self):
        return sorted(list(self.files) + list(self.dirs))

    # ---------------- preconditions (well-formedness)
    def can(self, op):
        kind, k = op[0], op[1]
        if self.meta_only:
            # a key holding metadata without data is unspecified territory: the only thing that may happen to it is a store;
            # nothing is done below it or to the directories above it
            if k in self.meta_only and kind != "store":
                return False
            if any(a in self.meta_only for a in ancestors(k)):
                return False
            if kind in ("removedir", "removedir_recursive", "remove") and any(x == k or x.startswith(k + "/") for x in self.meta_only):
                return False
        if kind == "store":
            return k != "" and k not in self.dirs and not any(a in self.files for a in ancestors(k))
        if kind in ("store_metadata", "store_metadata_rmw", "remove", "store_rmw"):
            return k in self.files
        if kind == "store_metadata_absent":
            return (k != "" and k not in self.files and k not in self.dirs and not any(a in self.files for a in ancestors(k))
                    and all(a in self.dirs for a in ancestors(k)))
        if kind == "makedir":
            return k != "" and k not in self.files and k not in self.meta_only and not any(a in self.files for a in ancestors(k))
        if kind in ("removedir", "removedir_recursive") and any(x.startswith(k + "/") for x in self.meta_only):
            return False
        if kind == "removedir_nonempty":
            # non-recursive removal of a directory that still has content: refused or ignored, never partly done
            return k in self.dirs and k not in self.pinned and bool(self.children(k))
        if kind == "removedir":
            return k in self.dirs and k not in self.pinned and not self.children(k)
        if kind == "removedir_recursive":
            return (k in self.dirs and k not in self.pinned
                    and not any(d in self.pinned for d in self.descendants(k)))
        raise ValueError(kind)

    # ---------------- effects
    def apply(self, op):
        kind, k = op[0], op[1]
        if kind == "store_metadata_absent":
            self.meta_only.add(k)
            return
        if kind in ("store", "remove"):
            self.meta_only.discard(k)
        if kind == "store":
            for a in ancestors(k):
                self.dirs.add(a)
            self.files[k] = (op[2], dict(op[3]))
        elif kind == "store_rmw":
            m = dict(self.files[k][1])
            m.update(op[3])
            self.files[k] = (op[2], m)
        elif kind == "store_metadata":
            self.files[k] = (self.files[k][0], dict(op[2]))
        elif kind == "store_metadata_rmw":
            m = dict(self.files[k][1])
            m.update(op[2])
            self.files[k] = (self.files[k][0], m)
        elif kind == "remove":
            self.files.pop(k, None)
        elif kind == "makedir":
            self.dirs.add(k)
            for a in ancestors(k):
                self.dirs.add(a)
        elif kind == "removedir_nonempty":
            pass    # "it depends on the store whether the directory must be empty": either way its content stays
        elif kind == "removedir":
            self.dirs.discard(k)
        elif kind == "removedir_recursive":
            for d in self.descendants(k):
                self.files.pop(d, None)
                self.dirs.discard(d)
            self.dirs.discard(k)


MUTATORS = ["store", "store_rmw", "store_metadata", "store_metadata_rmw", "remove", "makedir", "removedir", "removedir_recursive"]


def gen_history(rnd, model, universe, n, weights=None, avoid=None, tag="v"):
    """Draw n operations, each satisfying the model's precondition in the state it is applied to.
    The model passed in is advanced. avoid(op, model) -> True vetoes an operation (known-mechanism avoidance)."""
    weights = weights or {"store": 6, "store_rmw": 2, "store_metadata": 2, "store_metadata_rmw": 2, "remove": 3, "makedir": 2,
                          "removedir": 2, "removedir_recursive": 2, "removedir_nonempty": 1}
    kinds = [k for k, w in weights.items() for _ in range(w)]
    hist = []
    counter = 0
    tries = 0
    while len(hist) < n and tries < n * 40:
        tries += 1
        kind = rnd.choice(kinds)
        k = rnd.choice(universe)
        counter += 1
        if kind == "store":
            data = ("%s%d-%s" % (tag, counter, k)).encode() * rnd.choice([1, 1, 3, 40])
            if rnd.random() < 0.1:
                data = b""
            op = ["store", k, data, {"x_user": "%s%d" % (tag, counter), "x_list": [counter, k]}]
            if rnd.random() < 0.3:
                op[3]["title"] = "T%d" % counter
        elif kind == "store_rmw":
            # overwrite using the metadata read back from the store; often with data of the same length
            if k not in model.files:
                continue
            old = model.files[k][0]
            if rnd.random() < 0.6 and len(old) > 0:
                data = bytes((b + 1 + counter) % 256 for b in old)
            else:
                data = ("%s%d~%s" % (tag, counter, k)).encode()
            op = ["store_rmw", k, data, {"x_rmw_store": "%sw%d" % (tag, counter)}]
        elif kind == "store_metadata_absent":
            op = ["store_metadata_absent", k, {"x_user": "%sa%d" % (tag, counter), "status": "evaluation"}]
        elif kind == "store_metadata":
            op = ["store_metadata", k, {"x_user": "%sm%d" % (tag, counter), "x_only": counter}]
        elif kind == "store_metadata_rmw":
            op = ["store_metadata_rmw", k, {"x_rmw": "%sr%d" % (tag, counter)}]
        else:
            op = [kind, k]
        if not model.can(op):
            continue
        if avoid is not None and avoid(op, model):
            continue
        model.apply(op)
        hist.append(op)
    return hist


def op_to_json(op):
    o = list(op)
    if o[0] in ("store", "store_rmw"):
        o[2] = o[2].decode("latin-1")
    return o


def op_from_json(o):
    o = list(o)
    if o[0] in ("store", "store_rmw"):
        o[2] = o[2].encode("latin-1")
    return o


def apply_real(store, op):
    kind, k = op[0], op[1]
    if kind == "store":
        store.store(k, op[2], copy.deepcopy(op[3]))
    elif kind == "store_rmw":
        m = copy.deepcopy(store.get_metadata(k))
        m.update(copy.deepcopy(op[3]))
        store.store(k, op[2], m)
    elif kind in ("store_metadata", "store_metadata_absent"):
        store.store_metadata(k, copy.deepcopy(op[2]))
    elif kind == "store_metadata_rmw":
        m = store.get_metadata(k)
        m = copy.deepcopy(m)
        m.update(copy.deepcopy(op[2]))
        store.store_metadata(k, m)
    elif kind == "remove":
        store.remove(k)
    elif kind == "makedir":
        store.makedir(k)
    elif kind == "removedir_nonempty":
        try:
            store.removedir(k)
        except Exception:
            pass    # refusing is fine; what matters is what the store looks like afterwards
    elif kind == "removedir":
        store.removedir(k)
    elif kind == "removedir_recursive":
        store.removedir(k, recursive=True)


def relation(read_key, op_key):
    if op_key is None:
        return "-"
    if read_key == op_key:
        return "same"
    if read_key == "":
        return "root"
    if op_key.startswith(read_key + "/"):
        return "ancestor"
    if read_key.startswith(op_key + "/"):
        return "descendant"
    if parent(read_key) == parent(op_key):
        return "sibling"
    return "other"


def check_reads(store, model, universe, last_op=None, fresh_store_keys=(), strict_dir_metadata=True):
    """Compare every read of every key of the universe (and the root) with the model.
    Returns a list of discrepancy dicts {read, key, kind, detail}.  Read equivalences (see DESIGN 3.7):
    a failing read may raise anything; get_bytes of a directory/missing key may raise or return None;
    listdir of a non-directory may return None/[]/raise; keys() may be any iterable."""
    out = []
    okey = None if last_op is None else last_op[1]

    def bad(read, key, kind, detail):
        out.append({"read": read, "key": key, "kind": kind, "detail": detail, "rel": relation(key, okey)})

    unspecified = set(getattr(model, "meta_only", ()))
    for k in [""] + list(universe):
        if k in unspecified:
            # only one thing is demanded of a key that has metadata but never received data: no bytes are served for it
            try:
                got = store.get_bytes(k)
                if got is not None:
                    bad("get_bytes", k, "bytes_served_for_a_key_without_data", repr(got)[:60])
            except Exception:
                pass
            # ... and that the store agrees with itself on whether the key is there (containment vs key listing)
            try:
                c = bool(store.contains(k))
                listed = k in set(x for x in store.keys() if x is not None)
                if c != listed:
                    bad("contains", k, "disagrees_with_key_listing", "contains %r, listed %r (key with metadata but no data)" % (c, listed))
            except Exception:
                pass
            continue
        exp_exists, exp_dir = model.exists(k), model.is_dir(k)
        # contains
        try:
            got = store.contains(k)
            if bool(got) != exp_exists:
                bad("contains", k, "want_%s_got_%s" % (exp_exists, bool(got)), repr(got)[:80])
        except Exception as e:
            if exp_exists:
                bad("contains", k, "raises_for_existing", type(e).__name__)
        # is_dir
        try:
            got = store.is_dir(k)
            if bool(got) != exp_dir:
                bad("is_dir", k, "want_%s_got_%s" % (exp_dir, bool(got)), repr(got)[:80])
        except Exception as e:
            if exp_dir:
                bad("is_dir", k, "raises_for_directory", type(e).__name__)
        # get_bytes
        if k in model.files:
            want = model.files[k][0]
            try:
                got = store.get_bytes(k)
                if got != want:
                    bad("get_bytes", k, "wrong_bytes" if got is not None else "none_for_file", "want %r got %r" % (want[:40], None if got is None else got[:40]))
            except Exception as e:
                bad("get_bytes", k, "raises_for_file", type(e).__name__)
        elif k != "":
            try:
                got = store.get_bytes(k)
                if got is not None:
                    bad("get_bytes", k, "bytes_for_" + ("directory" if exp_dir else "absent"), repr(got)[:60])
            except Exception:
                pass
        # get_metadata
        if k in model.files:
            data, um = model.files[k]
            try:
                md = store.get_metadata(k)
                if not isinstance(md, dict):
                    bad("get_metadata", k, "not_a_dict_for_file", repr(md)[:60])
                else:
                    for f, v in um.items():
                        if md.get(f) != v:
                            bad("get_metadata", k, "user_field_differs", "%s: want %r got %r" % (f, v, md.get(f)))
                            break
                    # fields of an earlier metadata record that the latest one no longer has are gone ("the caller's metadata
                    # fields are read back": a metadata write replaces the record)
                    stale = [f for f in md if f.startswith("x_") and f not in um]
                    if stale:
                        bad("get_metadata", k, "field_of_a_replaced_record_still_there", "%r (current record has %r)" % (stale[:3], sorted(um)[:5]))
                    if md.get("key") != k:
                        bad("get_metadata", k, "key_field_wrong", repr(md.get("key")))
                    fi = md.get("fileinfo") or {}
                    if fi.get("name") != name_of(k):
                        bad("get_metadata", k, "fileinfo_name_wrong", repr(fi.get("name")))
                    if fi.get("is_dir"):
                        bad("get_metadata", k, "fileinfo_is_dir_true_for_file", "")
                    need = k in fresh_store_keys
                    if "size" in fi or need:
                        if fi.get("size") != len(data):
                            bad("get_metadata", k, "fileinfo_size_wrong", "want %d got %r" % (len(data), fi.get("size")))
                    if "md5" in fi or need:
                        if fi.get("md5") != hashlib.md5(data).hexdigest():
                            bad("get_metadata", k, "fileinfo_md5_wrong", repr(fi.get("md5")))
            except Exception as e:
                bad("get_metadata", k, "raises_for_file", type(e).__name__)
        elif exp_dir:
            try:
                md = store.get_metadata(k)
                if isinstance(md, dict):
                    if md.get("key") not in (k, None) and not (k == "" and md.get("key") in ("", None)):
                        bad("get_metadata", k, "key_field_wrong_for_directory", repr(md.get("key")))
                    if (md.get("fileinfo") or {}).get("is_dir") is False:
                        bad("get_metadata", k, "fileinfo_is_dir_false_for_directory", "")
                elif strict_dir_metadata:
                    bad("get_metadata", k, "not_a_dict_for_directory", repr(md)[:60])
            except Exception as e:
                if strict_dir_metadata and k != "":
                    bad("get_metadata", k, "raises_for_directory", type(e).__name__)
        else:
            try:
                md = store.get_metadata(k)
                if md is not None:
                    bad("get_metadata", k, "metadata_for_absent", repr(md)[:80])
            except Exception:
                pass
        # listdir
        if exp_dir:
            want = model.children(k)
            try:
                got = store.listdir(k)
                got = sorted(x for x in (got or []) if ((k + "/" + x) if k else x) not in unspecified)
                if got != want:
                    miss = sorted(set(want) - set(got))
                    extra = sorted(set(got) - set(want))
                    dup = sorted(x for x in set(got) if got.count(x) > 1)
                    kind = "missing" if miss else ("extra" if extra else "duplicate")
                    bad("listdir", k, kind, "want %r got %r" % (want, got))
            except Exception as e:
                bad("listdir", k, "raises_for_directory", type(e).__name__)
        else:
            try:
                got = store.listdir(k)
                if got:
                    bad("listdir", k, "entries_for_non_directory", repr(got)[:80])
            except Exception:
                pass
    # keys
    want = model.all_keys()
    try:
        got = sorted(x for x in store.keys() if x not in ("", None) and x not in unspecified)
        if got != want:
            miss = sorted(set(want) - set(got))
            extra = sorted(set(got) - set(want))
            dup = sorted(x for x in set(got) if got.count(x) > 1)
            if miss:
                k0 = miss[0]
                bad("keys", k0, "missing_" + ("directory" if model.is_dir(k0) else "file"), "missing %r" % miss)
            if extra:
                bad("keys", extra[0], "extra", "extra %r" % extra)
            if dup and not miss and not extra:
                bad("keys", dup[0], "duplicate", "duplicates %r" % dup)
    except Exception as e:
        bad("keys", "", "raises", type(e).__name__)
    return out
