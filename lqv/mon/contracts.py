"""Runtime contracts on the real liquer functions (icontract post-conditions).

A contract is a named condition function whose parameters are a subset of the
wrapped function's parameters plus ``result``; it returns None when satisfied
or a JSON-able witness dict when refuted.  ``install`` wraps the function with
``icontract.ensure`` and rebinds it in the defining module *and in every module
that imported it by name*, so the contract is evaluated wherever the code under
test calls the function.  Every evaluation is counted: a count of zero means
the monitor was never reached (inconclusive, never "held").

mode "raise":  a refuted contract raises ContractRefuted(witness) in the caller
mode "record": the witness is appended to ``records`` and execution continues
"""
import functools
import inspect
import sys
import threading

import icontract


class ContractRefuted(Exception):
    def __init__(self, name, witness):
        super().__init__("%s: %r" % (name, witness))
        self.name = name
        self.witness = witness


class Monitor:
    def __init__(self, mode="raise"):
        self.mode = mode
        self.counts = {}
        self.records = []
        self._lock = threading.Lock()
        self._installed = []

    def _make_condition(self, cname, check, params):
        mon = self
        cell = {}

        def evaluate(kwargs):
            with mon._lock:
                mon.counts[cname] = mon.counts.get(cname, 0) + 1
            w = check(**kwargs)
            if w is None:
                return True
            cell["w"] = w
            if mon.mode == "record":
                with mon._lock:
                    if len(mon.records) < 200:
                        mon.records.append({"contract": cname, "witness": w})
                return True
            return False

        # icontract inspects the condition's parameter names: build a function
        # with exactly the names the check asks for.
        src = "def cond(%s):\n    return _ev(dict(%s))\n" % (
            ", ".join(params), ", ".join("%s=%s" % (p, p) for p in params))
        ns = {"_ev": evaluate}
        exec(src, ns)
        cond = ns["cond"]
        cond.__name__ = cname

        def error(**_kw):
            return ContractRefuted(cname, cell.pop("w", None))

        src2 = "def err(%s):\n    return _mk()\n" % ", ".join(params)
        ns2 = {"_mk": error}
        exec(src2, ns2)
        return cond, ns2["err"]

    def wrap(self, fn, checks):
        wrapped = fn
        for cname, check in checks:
            params = list(inspect.signature(check).parameters)
            cond, err = self._make_condition(cname, check, params)
            wrapped = icontract.ensure(cond, error=err)(wrapped)
        return wrapped

    def install(self, owner, attr, checks):
        """owner: module or class. Rebinds everywhere the original is referenced by name."""
        original = inspect.getattr_static(owner, attr)
        raw = original
        if isinstance(original, (staticmethod, classmethod)):
            raw = original.__func__
        wrapped = self.wrap(raw, checks)
        if isinstance(original, classmethod):
            new = classmethod(wrapped)
        elif isinstance(original, staticmethod):
            new = staticmethod(wrapped)
        else:
            new = wrapped
        setattr(owner, attr, new)
        self._installed.append((owner, attr, original))
        if inspect.ismodule(owner):
            for m in list(sys.modules.values()):
                if m is None or m is owner:
                    continue
                d = getattr(m, "__dict__", None)
                if not d:
                    continue
                for k, v in list(d.items()):
                    if v is original:
                        setattr(m, k, new)
                        self._installed.append((m, k, original))
        return raw

    def uninstall(self):
        for owner, attr, original in reversed(self._installed):
            setattr(owner, attr, original)
        self._installed = []
