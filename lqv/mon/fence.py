"""Scratch fence: an *enforcing* audit hook. Every mutating file-system event whose resolved path lies outside
the worker's scratch directory raises FenceViolation, which cancels the operation (an exception raised by an audit
hook aborts the audited call).  liquer's stores join keys to paths without normalisation, so an unexpected key must
never be able to touch the machine the checks run on."""
import os
import sys


class FenceViolation(PermissionError):
    pass


_state = {"roots": [], "installed": False, "log": []}

_MUTATING = {"os.remove", "os.rmdir", "os.mkdir", "os.rename", "os.truncate", "os.chmod", "os.chown", "os.link",
             "os.symlink", "shutil.rmtree", "shutil.move", "os.utime", "os.mkfifo", "os.mknod", "shutil.copyfile",
             "shutil.copytree"}
_WRITE_FLAGS = os.O_WRONLY | os.O_RDWR | os.O_CREAT | os.O_TRUNC | os.O_APPEND


def _inside(path):
    if isinstance(path, int) or path is None:
        return True
    try:
        p = os.path.realpath(os.fsdecode(path))
    except Exception:
        return False
    if p in ("/dev/null", "/dev/tty") or "__pycache__" in p:
        return True
    for r in _state["roots"]:
        if p == r or p.startswith(r + os.sep):
            return True
    return False


def _hook(event, args):
    if not _state["roots"]:
        return
    if event == "open":
        path, mode, flags = (list(args) + [None, None, None])[:3]
        if flags is not None and (flags & _WRITE_FLAGS) and not _inside(path):
            _state["log"].append((event, str(path)))
            raise FenceViolation("lqv fence: write-open outside scratch: %r" % (path,))
    elif event in _MUTATING:
        dir_fd = None
        for a in args[1:]:
            if isinstance(a, int) and not isinstance(a, bool) and a >= 0 and event in ("os.remove", "os.rmdir", "os.mkdir") \
                    and (event != "os.mkdir" or a is args[-1]):
                dir_fd = a
        for a in args[:2]:
            if isinstance(a, (str, bytes, os.PathLike)) and dir_fd is not None and not os.path.isabs(os.fsdecode(a)):
                try:
                    a = os.path.join(os.readlink("/proc/self/fd/%d" % dir_fd), os.fsdecode(a))
                except OSError:
                    pass
            if isinstance(a, (str, bytes, os.PathLike)) and not _inside(a):
                _state["log"].append((event, str(a)))
                raise FenceViolation("lqv fence: %s outside scratch: %r" % (event, a))


def install(roots):
    _state["roots"] = [os.path.realpath(r) for r in roots]
    if not _state["installed"]:
        sys.addaudithook(_hook)
        _state["installed"] = True


def add_root(r):
    _state["roots"].append(os.path.realpath(r))


def escapes():
    return list(_state["log"])


def self_test(scratch):
    """the hook must really block: removing a canary outside the scratch has to raise"""
    outside = os.path.join(os.path.dirname(os.path.realpath(scratch)), "lqv_fence_canary_%d" % os.getpid())
    saved = list(_state["roots"])
    _state["roots"] = []
    with open(outside, "w") as f:
        f.write("canary")
    _state["roots"] = saved
    ok = False
    try:
        os.remove(outside)
    except FenceViolation:
        ok = True
    _state["roots"] = []
    try:
        if os.path.exists(outside):
            os.remove(outside)
    finally:
        _state["roots"] = saved
    if _state["log"] and _state["log"][-1][1] == outside:
        _state["log"].pop()
    return ok
