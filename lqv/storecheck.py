"""Shared exploration loop for the store properties (C07, C14, C15): many short well-formed histories per
configuration, reference-model comparison after every operation, delta-debugging of failing histories and
mechanism signatures."""
import hashlib
import random

from lqv import storecfg
from lqv.models import storemodel as SM


def sig_of(prop, label, d):
    return "%s|%s|after %s|%s(%s key)|%s" % (prop, label, d.get("op", "-"), d["read"], d.get("rel", "-"), d["kind"])


def explore_case(prop, label, make_case, history, universe, max_shrink=2, strict_dir_metadata=True):
    """make_case() -> (built, model, extra_check or None). Runs the history; returns
    (violations, steps, reads)."""
    built, model, extra = make_case()
    try:
        d, steps, reads = storecfg.run_history(built, history, universe, model=model, extra_check=extra,
                                               strict_dir_metadata=strict_dir_metadata)
    finally:
        built.close()
    if not d:
        return [], steps, reads
    viols = []
    seen = set()
    for disc in sorted(d, key=lambda x: (x["read"], x["kind"], x.get("rel", "")))[:8]:
        rk = (disc["read"], disc["kind"])
        if rk in seen or len(seen) >= max_shrink:
            continue
        seen.add(rk)

        def fails(h, rk=rk):
            b, m, ex = make_case()
            try:
                dd, _, _ = storecfg.run_history(b, h, universe, model=m, extra_check=ex,
                                                strict_dir_metadata=strict_dir_metadata)
            except Exception:
                return False
            finally:
                b.close()
            return any((x["read"], x["kind"]) == rk for x in dd)

        prefix = history[:disc["step"] + 1]
        try:
            minimal = storecfg.ddmin(prefix, fails)
        except Exception:
            minimal = prefix
        b, m, ex = make_case()
        try:
            dd, _, _ = storecfg.run_history(b, minimal, universe, model=m, extra_check=ex,
                                            strict_dir_metadata=strict_dir_metadata)
        finally:
            b.close()
        final = [x for x in dd if (x["read"], x["kind"]) == rk] or [disc]
        final = sorted(final, key=lambda x: (x.get("rel", ""), x["key"]))[0]
        viols.append({
            "sig": sig_of(prop, label, final),
            "what": "%s: after %r, %s(%r) -> %s (%s)" % (label, [SM.op_to_json(o)[:2] for o in minimal], final["read"],
                                                        final["key"], final["kind"], final["detail"]),
            "witness": {"label": label, "history": [SM.op_to_json(o) for o in minimal]},
        })
    return viols, steps, reads


def history_digest(label, history):
    return hashlib.sha1(repr((label, [SM.op_to_json(o) for o in history])).encode()).hexdigest()[:12]
