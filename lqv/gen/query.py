"""Grammar-directed generator of transformation queries over the vocabulary V (DESIGN 3.3).

Produces query *text*; features of every generated query are counted in ``features`` so that an empty
feature class makes a run inconclusive instead of silently held."""
from liquer.parser import encode_token

TEXTS = ["\ufeffbom", "é", "日本", "ß9", "a", "B", "x y", "a-b", "a/b", "~", "~~x", "%41", "50%", "a+b", "é€", "http://x.y/z?q=1", "https://u", "file://f",
         "://", "-1", "--", "", "~E", "~X~", "a.b", "_", "1e3", "None", "true", "t", "0"]
NONCANON = ["%41", "a%42c", "~/", "x~/y", "~1", "~9z", "%7E", "%2D", "A+B", "%20", "%c3%a9"]
NAMES = ["v1", "v2", "tag"]


class QGen:
    def __init__(self, rnd, allow_fail=False, allow_volatile=False, allow_mutators=False, max_len=6):
        self.r = rnd
        self.features = {}
        self.allow_fail = allow_fail
        self.allow_volatile = allow_volatile
        self.allow_mutators = allow_mutators
        self.max_len = max_len

    def feat(self, name):
        self.features[name] = self.features.get(name, 0) + 1

    # ---- argument text -------------------------------------------------------
    def str_arg(self, depth, pos):
        r = self.r
        k = r.random()
        if k < 0.12 and depth < 3:
            return self.link(depth, pos)
        if k < 0.2:
            self.feat("arg.empty")
            return ""
        if k < 0.32:
            self.feat("arg.noncanonical_spelling")
            return r.choice(NONCANON)
        t = r.choice(TEXTS)
        e = encode_token(t)
        if e != t:
            self.feat("arg.escaped")
        else:
            self.feat("arg.plain")
        return e

    def int_arg(self, depth, pos):
        r = self.r
        k = r.random()
        if k < 0.12 and depth < 3:
            return self.link(depth, pos, numeric=True)
        if k < 0.2:
            self.feat("arg.negative_number")
            return r.choice(["~1", "~_2", "~25"])
        if self.allow_fail and k < 0.23:
            self.feat("arg.unconvertible")
            return r.choice(["x", "1.5", ""])
        self.feat("arg.plain")
        return str(r.choice([0, 1, 2, 3, 7, 10, 100]))

    def float_arg(self, depth, pos):
        r = self.r
        k = r.random()
        if k < 0.1 and depth < 3:
            return self.link(depth, pos, numeric=True)
        if self.allow_fail and k < 0.13:
            self.feat("arg.unconvertible")
            return "x"
        self.feat("arg.plain")
        return r.choice(["0.5", "2", "1e2", "~1.5", "3.25", "inf"])

    def bool_arg(self, depth, pos):
        self.feat("arg.bool")
        if depth < 3 and self.r.random() < 0.15:
            # the value of a link: converted by the same words table as a textual argument (a truthy text such as 'f'
            # or a number is not 'true')
            self.feat("arg.bool_from_link")
            self.feat("link.absolute")
            return "~X~/%s~E" % self.r.choice(["lit-f", "lit-yes", "lit-no", "num-6", "num-0", "lit-TRUE", "lit-", "one", "flt-0.5", "lit-x"])
        return self.r.choice(["t", "true", "yes", "y", "f", "false", "no", "n", "TRUE", "x", "1", ""])

    def link(self, depth, pos, numeric=False):
        r = self.r
        absolute = r.random() < 0.5 or pos == 0
        if numeric:
            inner = r.choice(["num-4", "one", "one/add-2", "num/add-~X~/one~E", "flt-1.5"]) if absolute else r.choice(["add-1", "ident", "add-2/add-3"])
            if not absolute and not self._numeric_prefix:
                absolute = True
                inner = r.choice(["num-4", "one/add-2"])
        else:
            if absolute:
                inner = self.query(depth + 1, first=True, max_len=2)
            else:
                inner = self.query(depth + 1, first=False, max_len=2)
        # the same link text appearing at several places of one query (its meaning depends on the position when relative)
        last = getattr(self, "_last_link", None)
        if last is not None and last[0] == (absolute, numeric) and r.random() < 0.35 and (absolute or pos > 0):
            inner = last[1]
            self.feat("link.repeated_text")
        self._last_link = ((absolute, numeric), inner)
        self.feat("link.absolute" if absolute else "link.relative")
        self.feat("link.depth%d" % (depth + 1))
        return "~X~" + ("/" if absolute else "") + inner + "~E"

    # ---- actions ----------------------------------------------------------------
    def action(self, depth, pos, first):
        r = self.r
        self._numeric_prefix = getattr(self, "_numeric_prefix", False)

        def opt(args, keep=0):
            """randomly drop trailing optional args (missing -> defaulted)"""
            n = len(args)
            if r.random() < 0.45 and n > keep:
                m = r.randint(keep, n - 1)
                self.feat("arg.missing_defaulted")
                return args[:m]
            return args

        if first:
            c = r.choice(["one", "lit", "lit", "num", "num", "flt", "mk", "mk", "firstcat", "one"])
        else:
            pool = ["add", "add", "mulf", "flagged", "pair", "none_default", "unann", "scale", "cat", "cat", "ident", "withctx",
                    "sub", "subin", "filename", "ctxvar", "getvar", "tag", "let", "let", "flag", "state_variable", "ns", "attr_up", "attr_low", "attr_camel", "attr_false",
                    "lit", "num", "firstcat", "optint", "optfb"]
            if self.allow_volatile:
                pool += ["vol", "nocache", "recache", "nonvol"]
            if self.allow_mutators:
                pool += ["push", "push", "setkey", "dfcol", "mutvar", "mk", "deepmut", "argmut"]
            if self.allow_fail:
                pool += ["boom", "needs", "nosuchcmd", "boom0"]
            c = r.choice(pool)
        self.feat("cmd." + c)
        a = []
        D, P = depth, pos
        if c == "one":
            self._numeric_prefix = True
        elif c == "lit":
            a = opt([self.str_arg(D, P)])
            self._numeric_prefix = False
        elif c == "num":
            a = opt([self.int_arg(D, P)])
            self._numeric_prefix = True
        elif c == "flt":
            a = opt([self.float_arg(D, P)])
            self._numeric_prefix = True
        elif c == "mk":
            a = opt([r.choice(["list", "dict", "idict", "bigbytes", "udict", "nested", "df", "bytes", "text", "none", "float", "inf", "nan", "tuple", "tlist", "pairs", "set", "matrix", "lod"]), str(r.choice([0, 1, 2, 3]))])
            self._numeric_prefix = False
        elif c == "firstcat":
            a = [self.str_arg(D, P) for _ in range(r.randint(0, 3))]
            self.feat("arg.variadic%d" % len(a))
            self._numeric_prefix = False
        elif c == "add":
            a = opt([self.int_arg(D, P)])
        elif c == "mulf":
            a = opt([self.float_arg(D, P)])
        elif c == "flagged":
            a = opt([self.bool_arg(D, P), self.str_arg(D, P)])
            self._numeric_prefix = False
        elif c == "pair":
            a = opt([self.str_arg(D, P), self.str_arg(D, P)], keep=1)
            self._numeric_prefix = False
        elif c == "none_default":
            a = opt([self.str_arg(D, P)])
            self._numeric_prefix = False
        elif c == "optint":
            a = [self.int_arg(D, P)] if r.random() < 0.6 else []
            if not a:
                self.feat("arg.missing_none_default_typed")
            self._numeric_prefix = False
        elif c == "optfb":
            a = [self.float_arg(D, P), self.bool_arg(D, P)][:r.choice([0, 1, 2, 2])]
            if len(a) < 2:
                self.feat("arg.missing_none_default_typed")
            self._numeric_prefix = False
        elif c == "scale":
            a = opt([self.float_arg(D, P), self.str_arg(D, P)])
            self._numeric_prefix = False
        elif c == "unann":
            a = opt([self.int_arg(D, P)])
            self._numeric_prefix = False
        elif c == "cat":
            a = [self.str_arg(D, P) for _ in range(r.randint(0, 3))]
            self.feat("arg.variadic%d" % len(a))
            self._numeric_prefix = False
        elif c == "withctx":
            a = opt([self.str_arg(D, P)])
            self.feat("param.context")
            self._numeric_prefix = False
        elif c == "sub":
            pool = ["one", "one/add-2", "lit-s/cat-t", "num-3/mulf-2", "lit-a/let-v1-x/getvar-v1"]
            if self.allow_fail and r.random() < 0.25:
                pool = ["one/boom", "nosuchcmd", "one/add-x", "needs"]
                self.feat("sub_evaluation.failing")
            q = r.choice(pool)
            a = [encode_token(q)]
            self.feat("param.context")
            self.feat("sub_evaluation")
            self._numeric_prefix = False
        elif c == "subin":
            a = [encode_token(r.choice(["add-1", "cat-z", "ident", "add-2/cat-w", "mulf-2/ident"]))]
            self.feat("param.context")
            self.feat("sub_evaluation.injected_input")
            self._numeric_prefix = False
        elif c == "argmut":
            # two arguments given by the very same link text: two values, not one shared object
            L = r.choice(["~X~/mk-list-2~E", "~X~/mk-dict-1~E", "~X~/mk-matrix-1~E", "~X~/mk-list-1/push-q~E"])
            a = [L, L] if r.random() < 0.7 else [L, self.str_arg(D, P)]
            self.feat("link.absolute")
            self.feat("link.same_text_twice_in_one_action")
            self._numeric_prefix = False
        elif c == "filename":
            # labels the result from inside the pipeline (a trailing file name, if any, has the last word)
            a = [r.choice(["w.txt", "v.json", "u.b", "noext", "p.tar.gz", "q.html"])]
            self.feat("cmd.filename_label")
            self._numeric_prefix = False
        elif c == "ctxvar":
            a = [r.choice(NAMES + ["tag", "nope"])]
            self.feat("statevar.read_through_context")
            self.feat("param.context")
            self._numeric_prefix = False
        elif c == "getvar" or c == "state_variable":
            a = [r.choice(NAMES + ["active_namespaces", "nope"])]
            self.feat("statevar.read")
            self._numeric_prefix = False
        elif c == "tag":
            a = [self.str_arg(D, P)]
            self.feat("statevar.write")
        elif c == "let":
            a = [r.choice(NAMES), self.str_arg(D, P)]
            self.feat("statevar.write")
        elif c == "flag":
            a = opt([r.choice(NAMES), self.bool_arg(D, P)], keep=1)
            self.feat("statevar.write")
        elif c == "ns":
            a = r.choice([["alt"], ["alt"], ["root", "alt"], ["alt", "nosuchns"], []])
            self.feat("namespace")
        elif c in ("push",):
            a = opt([self.str_arg(D, P)])
            self._numeric_prefix = False
        elif c == "setkey":
            a = [r.choice(["k", "k0", "z"]), self.str_arg(D, P)]
            self._numeric_prefix = False
        elif c == "dfcol":
            a = [r.choice(["c", "a", "z"])]
            self._numeric_prefix = False
        elif c == "deepmut":
            a = opt([self.str_arg(D, P)])
            self._numeric_prefix = False
        elif c == "mutvar":
            a = [r.choice(NAMES + ["mlist"])]
        elif c == "needs":
            a = [] if r.random() < 0.7 else ["r"]
            self._numeric_prefix = False
        # surplus arguments (failure)
        if self.allow_fail and r.random() < 0.02:
            a = a + ["surplus1", "surplus2"]
            self.feat("arg.surplus")
        return "-".join([c] + a)

    def query(self, depth=0, first=True, max_len=None):
        r = self.r
        max_len = max_len or self.max_len
        n = r.randint(1, max_len)
        saved = getattr(self, "_numeric_prefix", False)
        if first:
            self._numeric_prefix = False
        acts = []
        for i in range(n):
            if i == 0 and first:
                f = r.random() < 0.85
            else:
                f = False
                # a first-command used mid-query ignores its input: flags of the state (volatility, caching switched
                # off) must survive it
                if acts and acts[-1].split("-")[0] in ("vol", "nocache", "let", "ns", "attr_up") and r.random() < 0.4:
                    f = True
                    self.feat("first_command_mid_query_after_flag")
            acts.append(self.action(depth, i if first else 1 + i, f))
        if depth > 0:
            self._numeric_prefix = saved
        if depth == 0:
            self.feat("length.%d" % n)
        return "/".join(acts)

    def top(self):
        self._last_link = None
        return self._top()

    def _top(self):
        """top-level query text, possibly with header / trailing file name"""
        r = self.r
        if r.random() < 0.06:
            # the same relative link at two positions: its value depends on the prefix it is applied to
            link = r.choice(["add-1", "add-2/add-3", "ident", "mulf-2", "cat-z"])
            a1 = r.choice(["add", "cat", "mulf", "pair"])
            a2 = r.choice(["add", "cat", "mulf", "cat-m"])
            q = "%s/%s-~X~%s~E/%s-~X~%s~E" % (r.choice(["one", "num-3", "flt-1.5"]), a1, link, a2, link)
            self.feat("link.repeated_text")
            self.feat("link.relative")
            if r.random() < 0.5:
                q += "/" + self.query(0, first=False, max_len=2)
            self.feat("length.%d" % (q.count("/") + 1))
            return q
        if r.random() < 0.04:
            # the same command name in two namespaces: the one the active namespaces select runs and is recorded
            q = "%s/%s/%s" % (self.query(0, max_len=2), r.choice(["ns-alt", "ns-alt-root", "ns-root-alt", "ns-alt/ident"]),
                              r.choice(["add-2", "add", "only_alt", "add-1/add-3", "add-4/cat-x"]))
            self.feat("namespace")
            self.feat("namespace.shadowing")
            self.feat("length.%d" % (q.count("/") + 1))
            return q
        if r.random() < 0.04:
            # a label given inside the pipeline, then a trailing file name of another kind: the trailing one decides
            q = "%s/filename-%s/%s/%s" % (self.query(0, max_len=2), r.choice(["w.txt", "v.json", "q.html", "u.b"]),
                                          r.choice(["ident", "cat-x", "ident/cat-y"]), r.choice(["y.json", "z.txt", "p.csv", "m.pickle", "n.b"]))
            self.feat("filename")
            self.feat("filename.relabelled")
            self.feat("length.%d" % (q.count("/") + 1))
            return q
        q = self.query(0)
        if r.random() < 0.2:
            fn = r.choice(["out.txt", "data.json", "x.pickle", "r.tar.gz", "a.HTML", "noext.", "f.b", "t.csv"])
            q = q + "/" + fn
            self.feat("filename")
        if r.random() < 0.08:
            q = r.choice(["-/", "-q/", "--x-p/"]) + q
            self.feat("header")
        return q
