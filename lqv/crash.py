"""fork + file-system-operation crash injector (DESIGN 3.6).

The child installs an interposer that counts every *mutating* file-system operation of the process
(open for writing/creating - i.e. create/truncate -, every raw write(2), remove, rename/replace, mkdir, rmdir,
truncate) and calls os._exit(77) immediately BEFORE operation number ``target`` - for a write optionally after
handing only the first k bytes of that write to the kernel (torn write).  os._exit skips every finally/with/except of
the code under test, exactly like SIGKILL, while everything already written stays in the files.
"""
import builtins
import io
import os
import sys

CRASH_EXIT = 77
DIED_EXIT = 78
_S = {"n": 0, "target": None, "torn": 0, "trace": None, "installed": False, "active": False, "root": None, "mode": "exit"}


class InjectedDeath(BaseException):
    """mode 'raise': the process dies by an exception raised at the operation (an interrupt, a full disk) - the stack
    unwinds, every finally / except / with of the code under test runs, then the process ends"""


def _relevant(path):
    if path is None or isinstance(path, int):
        return False
    try:
        p = os.path.abspath(os.fsdecode(path))
    except Exception:
        return False
    r = _S["root"]
    return r is not None and (p == r or p.startswith(r + os.sep))


def _event(kind, path, nbytes=None):
    """called BEFORE the operation takes effect; returns number of bytes to write before dying (torn) or None"""
    if not _S["active"] or not _relevant(path):
        return None
    cb = _S.get("on_event")
    if cb is not None:          # scheduling mode (C12): the operation is a yield point, nobody dies
        cb(kind, os.path.relpath(os.fsdecode(path), _S["root"]), nbytes)
        return None
    _S["n"] += 1
    if _S["trace"] is not None:
        _S["trace"].append((kind, os.path.relpath(os.fsdecode(path), _S["root"]), nbytes))
    if _S["target"] is not None and _S["n"] == _S["target"]:
        if kind == "write" and _S["torn"] > 0 and nbytes:
            return min(_S["torn"], nbytes - 1) if nbytes > 1 else 0
        if _S.get("mode") == "raise":
            _S["target"] = None      # what the unwinding code does afterwards is not interfered with
            raise InjectedDeath("%s %s" % (kind, path))
        os._exit(CRASH_EXIT)
    return None


class HookedRaw(io.FileIO):
    """raw file whose every write(2) is an interposed operation"""

    def write(self, b):
        k = _event("write", self.name, len(b))
        if k is not None:
            if k > 0:
                super().write(bytes(b[:k]))
            if _S.get("mode") == "raise":
                _S["target"] = None
                raise InjectedDeath("torn write %s" % self.name)
            os._exit(CRASH_EXIT)
        return super().write(b)


_real_open = builtins.open
_real_io_open = io.open


def _hooked_open(file, mode="r", buffering=-1, encoding=None, errors=None, newline=None, closefd=True, opener=None):
    writing = any(c in mode for c in "wax+")
    if not _S["active"] or not writing or not _relevant(file) or isinstance(file, int) or opener is not None:
        return _real_io_open(file, mode, buffering, encoding, errors, newline, closefd, opener)
    binary = "b" in mode
    rawmode = mode.replace("b", "").replace("t", "")
    raw = HookedRaw(os.fspath(file), rawmode)   # the audit hook sees this open (create/truncate) as an operation
    if buffering == 0 and binary:
        return raw
    buf = io.BufferedRandom(raw) if "+" in mode else io.BufferedWriter(raw)
    if binary:
        return buf
    return io.TextIOWrapper(buf, encoding=encoding, errors=errors, newline=newline)


def _audit(event, args):
    if not _S["active"]:
        return
    if event == "open":
        path, mode, flags = (list(args) + [None, None, None])[:3]
        if flags is not None and (flags & (os.O_WRONLY | os.O_RDWR | os.O_CREAT | os.O_TRUNC | os.O_APPEND)):
            _event("open_write", path)
        elif _S.get("on_event") is not None and _S.get("reads"):
            _event("open_read", path)   # scheduling mode only: a reader can be preempted between its existence check and its open
    elif event in ("os.remove", "os.rmdir", "os.mkdir", "os.truncate"):
        _event(event[3:], args[0])
    elif event == "os.rename":
        if _relevant(args[0]) or _relevant(args[1]):
            _event("rename", args[1] if _relevant(args[1]) else args[0])


def install(root):
    _S["root"] = os.path.abspath(root)
    if not _S["installed"]:
        sys.addaudithook(_audit)
        builtins.open = _hooked_open
        io.open = _hooked_open
        _S["installed"] = True


def run_in_child(root, fn, target=None, torn=0, record=False, mode="exit"):
    """fork; in the child run fn() under the interposer. Returns (status, trace) where status is 'completed',
    'crashed' (died at the target operation) or 'error:<n>'; trace only when record=True."""
    r, w = os.pipe()
    pid = os.fork()
    if pid == 0:
        try:
            os.close(r)
            install(root)
            _S["n"] = 0
            _S["target"] = target
            _S["torn"] = torn
            _S["mode"] = mode
            _S["trace"] = [] if record else None
            _S["active"] = True
            try:
                fn()
            except InjectedDeath:
                _S["active"] = False
                os._exit(DIED_EXIT)
            except BaseException:
                _S["active"] = False
                if mode == "raise" and _S["target"] is None and target is not None:
                    os._exit(DIED_EXIT)     # the code under test turned the injected death into another exception
                os.write(w, b"EXC")
                os._exit(3)
            if mode == "raise" and _S["target"] is None and target is not None:
                _S["active"] = False
                os._exit(DIED_EXIT)         # ... or swallowed it: the writer carried on; the process ends here all the same
            _S["active"] = False
            if record:
                import json

                os.write(w, json.dumps(_S["trace"]).encode())
            os._exit(0)
        finally:
            os._exit(4)
    os.close(w)
    chunks = []
    while True:
        c = os.read(r, 65536)
        if not c:
            break
        chunks.append(c)
    os.close(r)
    _, st = os.waitpid(pid, 0)
    code = os.waitstatus_to_exitcode(st)
    data = b"".join(chunks)
    if code == 0:
        trace = None
        if record and data:
            import json

            trace = [tuple(x) for x in json.loads(data.decode())]
        return "completed", trace
    if code in (CRASH_EXIT, DIED_EXIT):
        return "crashed", None
    return "error:%d" % code, None
