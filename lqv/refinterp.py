"""Reference interpreter of *parsed* liquer transformation queries over the undecorated functions of V.

Written without Context, CommandExecutable, any argument parser or any cache: it walks the actions left to
right, converts textual arguments from the function's own inspect.signature, evaluates link arguments
recursively and threads the state variables.  It is the oracle of C01 and the classifier for C04-C06/C09/C18.
"""
import copy
import inspect

from lqv import vocab

BOOL_WORDS = dict(y=True, yes=True, n=False, no=False, t=True, true=True, f=False, false=False)


class Fail:
    ok = False

    def __init__(self, path, kind, detail="", executions=0):
        self.path = path          # list of steps: ("action", index) / ("arg", index) / ("sub", query)
        self.kind = kind          # unknown / convert / missing / surplus / raises / link / sub
        self.detail = detail
        self.executions = executions

    def __repr__(self):
        return "Fail(%r, %s, %s)" % (self.path, self.kind, self.detail)


class Ok:
    ok = True

    def __init__(self):
        self.value = None
        self.vars = {}
        self.last_command = None      # list form [name, arg...]
        self.last_ns = None
        self.filename = None
        self.extension = None
        self.volatile = False
        self.caching = True
        self.attributes = {}
        self.sub_queries = []         # evaluated from inside commands (last action)
        self.link_queries = []        # link arguments of the last action
        self.executions = 0           # number of command executions implied (without any cache)
        self.steps = []               # per prefix: dict(volatile, caching, attributes)

    def __repr__(self):
        return "Ok(%r)" % (self.value,)


class RefState:
    """Stand-in for the state object handed to state-taking commands."""

    def __init__(self, data, vars_, filename=None, extension=None):
        self.data = data
        self.vars = vars_
        self.metadata = {"vars": vars_, "filename": filename, "extension": extension}

    def get(self):
        return self.data

    def with_data(self, d):
        self.data = d
        return self

    def with_filename(self, name):
        self.metadata["filename"] = name
        if "." in name:
            self.metadata["extension"] = name.split(".")[-1].lower()
        return self


class Budget(Exception):
    pass


class RefInterp:
    def __init__(self, default_vars=None, max_exec=300):
        self.table = vocab.table()
        self.default_vars = default_vars or {}
        self.max_exec = max_exec
        self.executions = 0
        self.resource_lookup = None  # key -> bytes or None
        # "each action receives the previous result": by value.  The value and the variables are copied between steps, so
        # that a command mutating its input in place (which may be the very object a variable holds) does not act at a
        # distance in the model either.
        self.isolate = True

    # -- public ---------------------------------------------------------------
    def run(self, query, input_value=None, extra=None, has_input=False):
        """query: parsed liquer Query (transform query). Returns Ok or Fail. Raises Budget when the query
        implies more than max_exec command executions (relative links re-evaluate their prefix)."""
        self.executions = 0
        out = self._run(query, input_value, extra, top=True)
        out.executions = self.executions
        return out

    # -- internals --------------------------------------------------------------
    def _segment(self, query):
        from liquer.parser import TransformQuerySegment

        if len(query.segments) != 1 or not isinstance(query.segments[0], TransformQuerySegment):
            raise ValueError("reference interpreter handles single-segment transformation queries")
        return query.segments[0]

    def _run(self, query, input_value=None, extra=None, top=False):
        from liquer.parser import ResourceQuerySegment, TransformQuerySegment

        segs = query.segments
        if segs and isinstance(segs[0], ResourceQuerySegment):
            # resource (+ optional transformation): the store content is supplied by resource_lookup
            key = segs[0].path()
            data = self.resource_lookup(key) if self.resource_lookup is not None else None
            if data is None:
                return Fail([("resource", 0)], "missing_resource", key)
            if len(segs) == 1:
                out = Ok()
                out.value = data
                out.vars = copy.deepcopy(self.default_vars)
                return out
            if len(segs) == 2 and isinstance(segs[1], TransformQuerySegment):
                return self._run_actions(list(segs[1].query), segs[1].filename, data, extra, rooted=True)
            raise ValueError("unsupported query shape")
        seg = self._segment(query)
        return self._run_actions(list(seg.query), seg.filename, input_value, extra)

    def _resolve(self, vars_, name):
        for ns in vars_.get("active_namespaces", ["root"]):
            if ns in self.table and name in self.table[ns]:
                return ns, self.table[ns][name]
        return None, None

    def _convert(self, p, raw):
        """p: inspect.Parameter; raw: text or link value"""
        ann = p.annotation
        kind = None
        if ann is not inspect.Parameter.empty and type(ann) == type:
            kind = ann.__name__
        elif p.default is not inspect.Parameter.empty and p.default is not None:
            kind = type(p.default).__name__
        if kind == "int":
            return int(raw)
        if kind == "float":
            return float(raw)
        if kind == "bool":
            return BOOL_WORDS.get(str(raw).lower(), False)
        return raw

    def _run_actions(self, actions, filename, input_value, extra, rooted=False):
        # rooted: input_value is the content of the query's resource segment (part of the query, hence also of the
        # prefix a relative link is applied to); otherwise it is a value injected by the caller
        from liquer.parser import StringActionParameter, LinkActionParameter

        out = Ok()
        vars_ = copy.deepcopy(self.default_vars)
        value = input_value
        label, ext = None, None
        volatile = False
        caching = True
        attributes = {}
        for i, action in enumerate(actions):
            is_last = i == len(actions) - 1
            ns, entry = self._resolve(vars_, action.name)
            if entry is None:
                return Fail([("action", i)], "unknown", action.name)
            f, kind, cmd_attrs = entry
            # ---- arguments
            args = []
            link_queries = []
            for j, prm in enumerate(action.parameters):
                if isinstance(prm, StringActionParameter):
                    args.append(prm.string)
                elif isinstance(prm, LinkActionParameter):
                    link = prm.link
                    link_queries.append(link.encode())
                    if link.absolute or (i == 0 and not rooted):
                        r = self._run(link)
                    else:
                        lseg = self._segment(link)
                        # a relative link denotes the query 'prefix/link', evaluated as a query in its own right
                        # (an input value injected into the outer evaluation is not part of that query)
                        r = self._run_actions(list(actions[:i]) + list(lseg.query), lseg.filename,
                                              input_value if rooted else None, None, rooted=rooted)
                    if not r.ok:
                        return Fail([("action", i), ("arg", j)] + r.path, "link", repr(r))
                    args.append(r.value)
                else:
                    return Fail([("action", i), ("arg", j)], "unknown_parameter_type")
            extra_kw = {}
            if is_last and extra:
                if isinstance(extra, list):
                    args.extend(extra)
                    volatile = True
                elif isinstance(extra, dict):
                    extra_kw = dict(extra)
                    volatile = True
            sig = inspect.signature(f)
            params = list(sig.parameters.values())
            if kind in ("data", "state"):
                params = params[1:]
            argv = []
            k = 0
            ctx = None
            subq = []
            try:
                for p in params:
                    if p.name == "context":
                        ctx = _RefContext(self, subq, copy.deepcopy(vars_))
                        argv.append(ctx)
                        continue
                    if p.kind is inspect.Parameter.VAR_POSITIONAL:
                        argv.extend(args[k:])
                        k = len(args)
                        break
                    if k < len(args):
                        try:
                            argv.append(self._convert(p, args[k]))
                        except Exception as e:
                            return Fail([("action", i), ("arg", k)], "convert", repr(e))
                        k += 1
                    elif p.name in extra_kw:
                        try:
                            argv.append(self._convert(p, extra_kw[p.name]))
                        except Exception as e:
                            return Fail([("action", i)], "convert", repr(e))
                    elif p.default is not inspect.Parameter.empty:
                        argv.append(p.default)
                    else:
                        return Fail([("action", i)], "missing", p.name)
                if k < len(args):
                    return Fail([("action", i), ("arg", k)], "surplus")
                # ---- call
                self.executions += 1
                if self.executions > self.max_exec:
                    raise Budget()
                if kind == "first":
                    res = f(*argv)
                elif kind == "data":
                    res = f(value, *argv)
                else:
                    st = RefState(value, vars_, label, ext)
                    res = f(st, *argv)
            except Budget:
                raise
            except _SubFailed as e:
                return Fail([("action", i), ("sub", e.query)] + e.fail.path, "sub", repr(e.fail))
            except Exception as e:
                return Fail([("action", i)], "raises", repr(e)[:200])
            if isinstance(res, RefState):
                value = res.data
                vars_ = res.vars
                label, ext = res.metadata["filename"], res.metadata["extension"]
            else:
                value = res
            if getattr(self, "isolate", False):
                # "each action receives the previous result": by value - what a command does to its input in place,
                # or to a variable it was handed as its input, is its own business
                try:
                    value = copy.deepcopy(value)
                    vars_ = copy.deepcopy(vars_)
                except Exception:
                    pass
            if ctx is not None and ctx.cache_disabled:
                caching = False
            volatile = volatile or bool(cmd_attrs.get("volatile", False))
            attributes = {a: v for a, v in attributes.items() if a[:1].isupper()}
            attributes.update(cmd_attrs)
            attributes["ns"] = ns
            out.last_command = action_as_list(action)
            out.last_ns = ns
            out.sub_queries = list(subq)
            out.link_queries = link_queries
            out.steps.append({"volatile": volatile, "caching": caching, "attributes": dict(attributes)})
        if filename is not None:
            label = str(filename)
            if "." in label:
                ext = label.split(".")[-1].lower()
        out.value = value
        out.vars = vars_
        out.filename = label
        out.extension = ext
        out.volatile = volatile
        out.caching = caching
        out.attributes = attributes
        return out


class _SubFailed(Exception):
    def __init__(self, query, fail):
        self.query = query
        self.fail = fail


class _SubState:
    def __init__(self, v):
        self._v = v
        self.is_error = False

    def get(self):
        return self._v


def action_as_list(action):
    """[name, argument...] of a parsed action: decoded text of plain arguments, link arguments in their '~X~...~E' form
    (computed here, not by ActionRequest.to_list of the library under test)"""
    from liquer.parser import StringActionParameter, LinkActionParameter

    out = [action.name]
    for x in action.parameters:
        if isinstance(x, StringActionParameter):
            out.append(x.string)
        elif isinstance(x, LinkActionParameter):
            out.append("~X~" + x.link.encode() + "~E")
        else:
            out.append(repr(x))
    return out


class _RefContext:
    """What a command may do with its context in V: evaluate a sub-query, switch caching off."""

    def __init__(self, interp, subq, vars_=None):
        self.interp = interp
        self.subq = subq
        self.cache_disabled = False
        self.vars = vars_ if vars_ is not None else {}

    def evaluate(self, q, **_kw):
        from liquer.parser import parse

        self.subq.append(q)
        r = self.interp._run(parse(q), input_value=copy.deepcopy(_kw.get("input_value")))
        if not r.ok:
            raise _SubFailed(q, r)
        return _SubState(r.value)

    def disable_cache(self):
        self.cache_disabled = True
        return self

    def enable_cache(self, enable=True):
        self.cache_disabled = not enable
        return self


# -------------------------------------------------------------------------------
# value comparison: type-strict, NaN-aware, frame-aware


def equal(a, b):
    import math

    if type(a) is not type(b):
        return False
    try:
        import pandas as pd

        if isinstance(a, pd.DataFrame):
            try:
                pd.testing.assert_frame_equal(a, b)
                return True
            except AssertionError:
                return False
    except ImportError:
        pass
    if isinstance(a, float):
        return (math.isnan(a) and math.isnan(b)) or a == b
    if isinstance(a, (list, tuple)):
        return len(a) == len(b) and all(equal(x, y) for x, y in zip(a, b))
    if isinstance(a, dict):
        # insertion order is observable (iteration, repr): part of the value
        return list(a) == list(b) and all(equal(a[k], b[k]) for k in a)
    try:
        return bool(a == b)
    except Exception:
        return False


def dict_equal_unordered(a, b):
    if not isinstance(a, dict) or not isinstance(b, dict) or set(a) != set(b):
        return False
    return all(equal(a[k], b[k]) for k in a)


def short(v, n=120):
    r = vocab._r(v)
    return r if len(r) <= n else r[:n] + "..."
