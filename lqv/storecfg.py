"""Store configurations under test, raw snapshots of their leaf stores, and the history runner."""
import copy
import hashlib
import os
import shutil

from lqv.models import storemodel as SM


class Built:
    def __init__(self, store, leaves, prefix="", cleanup=None, pinned=(), extra_keys=()):
        self.extra_keys = list(extra_keys)   # keys of the universe that are NOT under the prefix (e.g. default-store siblings)
        self.store = store          # the object under test
        self.leaves = leaves        # raw leaf stores (MemoryStore / FileStore) for snapshots
        self.prefix = prefix        # universe keys are re-prefixed with this
        self.pinned = set(pinned)
        self._cleanup = cleanup or []

    def close(self):
        for d in self._cleanup:
            shutil.rmtree(d, ignore_errors=True)


def snapshot_leaf(leaf):
    from liquer.store import MemoryStore, FileStore

    if isinstance(leaf, MemoryStore):
        return ("mem", sorted(leaf.directories), copy.deepcopy(leaf.data), strip_volatile(copy.deepcopy(leaf.metadata)))
    if isinstance(leaf, FileStore):
        out = {}
        root = str(leaf.path)
        for dp, dn, fn in os.walk(root):
            rel = os.path.relpath(dp, root)
            out[rel + "/"] = None
            for f in fn:
                p = os.path.join(dp, f)
                with open(p, "rb") as fh:
                    out[os.path.join(rel, f)] = hashlib.md5(fh.read()).hexdigest()
        return ("file", out)
    return ("?", repr(leaf))


def strip_volatile(md):
    return md


def snapshot(built):
    return [snapshot_leaf(x) for x in built.leaves]


_counter = [0]


def _newdir(scratch, name):
    _counter[0] += 1
    d = os.path.join(scratch, "%s_%d" % (name, _counter[0]))
    os.makedirs(d)
    return d


def leaf(kind, scratch, cleanup):
    from liquer.store import MemoryStore, FileStore

    if kind == "memory":
        return MemoryStore()
    if kind == "file":
        d = _newdir(scratch, "fs")
        cleanup.append(d)
        return FileStore(d)
    if kind == "filerel":
        # the same directory store addressed by a path relative to the working directory
        d = _newdir(scratch, "fsrel")
        cleanup.append(d)
        return FileStore(os.path.relpath(d, os.getcwd()))
    if kind == "filedot":
        d = _newdir(scratch, "fsdot")
        cleanup.append(d)
        s = FileStore(os.path.join(os.path.relpath(d, os.getcwd()), "x", ".."))
        os.makedirs(os.path.join(d, "x"), exist_ok=True)
        return s
    raise ValueError(kind)


C07_CONFIGS = [
    "memory", "file", "proxy(memory)", "proxy(file)", "indexer(memory)", "indexer(file)",
    "overlay(memory|empty)", "overlay(file|empty)", "mountdefault(memory)", "mountdefault(file)",
    "mounted(memory)", "mounted(file)", "global(memory)", "global(file)", "mounted2(memory)", "mounted2(file)", "filerel", "proxy(filerel)",
]


def build(cfg, scratch):
    from liquer.store import (ProxyStore, IndexerStore, OverlayStore, MountPointStore, MemoryStore)

    cleanup = []
    name, _, arg = cfg.partition("(")
    arg = arg.rstrip(")")
    if name in ("memory", "file", "filerel"):
        s = leaf(name, scratch, cleanup)
        return Built(s, [s], cleanup=cleanup)
    if name == "proxy":
        s = leaf(arg, scratch, cleanup)
        return Built(ProxyStore(s), [s], cleanup=cleanup)
    if name == "indexer":
        s = leaf(arg, scratch, cleanup)
        return Built(IndexerStore(s), [s], cleanup=cleanup)
    if name == "overlay":
        a, _, b = arg.partition("|")
        s = leaf(a, scratch, cleanup)
        fb = MemoryStore() if b == "empty" else leaf(b, scratch, cleanup)
        return Built(OverlayStore(s, fb), [s, fb], cleanup=cleanup)
    if name == "mountdefault":
        s = leaf(arg, scratch, cleanup)
        return Built(MountPointStore(default_store=s), [s], cleanup=cleanup)
    if name == "mounted":
        s = leaf(arg, scratch, cleanup)
        d = MemoryStore()
        m = MountPointStore(default_store=d)
        m.mount("m", s)
        return Built(m, [s, d], prefix="m/", cleanup=cleanup, pinned=["m"])
    if name == "mounted2":
        # two-component mount point beside default-store entries in the same ancestor directory
        s = leaf(arg, scratch, cleanup)
        d = MemoryStore()
        m = MountPointStore(default_store=d)
        m.mount("data/m", s)
        return Built(m, [s, d], prefix="data/m/", cleanup=cleanup, pinned=["data/m", "data"],
                     extra_keys=["data/local.txt", "data/x/y.txt", "data/mx.txt", "top.txt"])
    if name == "readonly":
        # a store that refuses every write (with some content to read)
        s = leaf(arg, scratch, cleanup)
        for k, v in (("a/b.txt", b"ro-ab"), ("e.txt", b"ro-e"), ("f/g.bin", b"\x00ro")):
            s.store(k, v, {"x_user": "ro"})
        return Built(s.read_only(), [s], cleanup=cleanup)
    if name == "global":
        s = leaf(arg, scratch, cleanup)
        m = MountPointStore().with_indexer()
        m.mount("data/sub", s)
        return Built(m, [s], prefix="data/sub/", cleanup=cleanup, pinned=["data/sub", "data"])
    raise ValueError(cfg)


def run_history(built, history, universe, model=None, check_purity=True, on_step=None, extra_check=None,
                strict_dir_metadata=True):
    """Apply a well-formed history to the real store and the model; after every operation compare all reads.
    Returns (first_discrepancies, steps_done, reads_done). Stops at the first step with discrepancies."""
    model = model or SM.StoreModel(pinned=built.pinned)
    store = built.store
    reads = 0
    for i, op in enumerate(history):
        if not model.can(op):
            return [{"read": "-", "key": op[1], "kind": "ill_formed_history", "detail": repr(op[:2]), "rel": "-", "step": i}], i, reads
        model.apply(op)
        try:
            SM.apply_real(store, op)
        except Exception as e:
            return [{"read": "op:" + op[0], "key": op[1], "kind": "raises_on_well_formed_op:" + type(e).__name__,
                     "detail": repr(e)[:200], "rel": "same", "step": i, "op": op[0]}], i, reads
        before = snapshot(built) if check_purity else None
        fresh = (op[1],) if op[0] in ("store", "store_rmw") else ()
        d = SM.check_reads(store, model, universe, last_op=op, fresh_store_keys=fresh,
                           strict_dir_metadata=strict_dir_metadata)
        reads += 6 * (len(universe) + 1) + 1
        if check_purity:
            after = snapshot(built)
            if after != before:
                d.append({"read": "any", "key": "", "kind": "read_changed_store", "detail": diff_snap(before, after), "rel": "-"})
        if extra_check is not None:
            d.extend(extra_check(i, op, model) or [])
        if on_step is not None:
            on_step(i, op)
        if d:
            for x in d:
                x["step"] = i
                x["op"] = op[0]
            return d, i + 1, reads
    return [], len(history), reads


def diff_snap(a, b):
    out = []
    for x, y in zip(a, b):
        if x != y:
            if x[0] == "file":
                ka, kb = x[1], y[1]
                for k in sorted(set(ka) | set(kb)):
                    if ka.get(k, "-") != kb.get(k, "-"):
                        out.append("%s: %s -> %s" % (k, ka.get(k, "absent"), kb.get(k, "absent")))
            else:
                out.append("memory leaf changed: dirs %r -> %r; data keys %r -> %r" % (x[1], y[1], sorted(x[2]), sorted(y[2])))
                for k in set(x[3]) | set(y[3]):
                    if x[3].get(k) != y[3].get(k):
                        ma, mb = x[3].get(k) or {}, y[3].get(k) or {}
                        out.append("metadata[%s] fields %r" % (k, [f for f in set(ma) | set(mb) if ma.get(f) != mb.get(f)]))
    return "; ".join(out)[:400]


def ddmin(history, test):
    """Delta debugging: smallest sub-history (by removing operations) for which test(sub) is still true."""
    n = 2
    cur = list(history)
    while len(cur) >= 2:
        chunk = max(1, len(cur) // n)
        reduced = False
        for i in range(0, len(cur), chunk):
            cand = cur[:i] + cur[i + chunk:]
            if cand and test(cand):
                cur = cand
                n = max(n - 1, 2)
                reduced = True
                break
        if not reduced:
            if chunk == 1:
                break
            n = min(len(cur), n * 2)
    return cur
