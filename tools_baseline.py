#!/usr/bin/env python3
"""Runs the repository's pinned test-suite (guard OFF) and compares with /root/.vp/BASELINE.json."""
import json, os, subprocess, sys, tempfile, xml.etree.ElementTree as ET
base = json.load(open("/root/.vp/BASELINE.json"))
out = tempfile.mktemp(suffix=".xml", dir="/dev/shm")
env = {k: v for k, v in os.environ.items() if k != "LIQUER_VERIF"}
cmd = base["cmd"].replace("<file>", out)
r = subprocess.run(cmd, shell=True, env=env, stdout=subprocess.PIPE, stderr=subprocess.STDOUT)
passed = set()
for tc in ET.parse(out).getroot().iter("testcase"):
    if not any(c.tag in ("failure", "error", "skipped") for c in tc):
        passed.add(tc.get("classname") + "::" + tc.get("name"))
os.remove(out)
missing = [t for t in base["stable_pass"] if t not in passed]
print("passed %d; baseline %d; baseline tests not passing: %d" % (len(passed), len(base["stable_pass"]), len(missing)))
for t in missing:
    print("  MISSING", t)
sys.exit(1 if missing else 0)
