#!/usr/bin/env python3
"""Regenerates MANIFEST.json from the table below (kept in one place so the manifest stays valid)."""
import json, os, sys

HERE = os.path.dirname(os.path.abspath(__file__))

CHECKS = {
    # id: (category, technique, level text, level note, design ref)
}

def load():
    sys.path.insert(0, HERE)
    from lqv import registry
    return registry

def main():
    reg = load()
    props = [json.loads(l)["id"] for l in open(os.path.join(HERE, "properties.jsonl"))]
    checks = []
    na = []
    for pid in props:
        c = reg.CHECKS.get(pid)
        if c is None:
            na.append({"property_id": pid, "reason": reg.NOT_CLAIMED.get(pid, "check not built yet in this round (runtime-monitoring design exists in DESIGN.md section 4); nothing is claimed")})
            continue
        checks.append({
            "property_id": pid,
            "quick_cmd": "./check %s --tier quick" % pid,
            "thorough_cmd": "./check %s --tier thorough" % pid,
            "evidence_file": "evidence/%s.json" % pid,
            "replay_cmd_template": "./check %s --replay {path}" % pid,
            "engine": c.get("engine", "lqv"),
            "level_claimed": {"category": c["category"], "text": c["text"], "design_ref": c["design_ref"]},
            "level_note": c["note"],
            "technique": c["technique"],
        })
    man = {
        "version": 1,
        "setup_cmd": "./check --setup",
        "hooks": {
            "guard": "LIQUER_VERIF",
            "enable": "no source hooks: every monitor is attached from the harness (proxies, icontract wrappers rebound at import, audit hooks); checks import liquer from /repo's working tree and set LIQUER_VERIF=1 for the record",
            "baseline_off_cmd": "cd /repo && env -u LIQUER_VERIF /venv/bin/python -m pytest -ra -q -p no:cacheprovider --timeout=900 --continue-on-collection-errors",
            "source_commits": reg.HOOK_COMMITS,
            "add_only": True,
        },
        "engines": [{"name": "lqv", "path": "lqv/", "serves_properties": [c["property_id"] for c in checks],
                     "kind_free_text": "Python runtime-monitoring harness: reference-model monitors, icontract contracts on the real functions, recording proxies, deterministic thread scheduler, fork+fs-op crash injector; sharded over worker subprocesses"}],
        "checks": checks,
        "not_applicable": na,
        "notes": reg.NOTES,
    }
    with open(os.path.join(HERE, "MANIFEST.json"), "w") as f:
        json.dump(man, f, indent=1)
        f.write("\n")
    try:
        import jsonschema
        jsonschema.validate(man, json.load(open("/root/.vp/MANIFEST.schema.json")))
        print("MANIFEST.json valid;", len(checks), "checks,", len(na), "not claimed")
    except ImportError:
        print("MANIFEST.json written (jsonschema not importable here)")

if __name__ == "__main__":
    main()
