#!/usr/bin/env python3
"""Seeded-defect bookkeeping.

  tools_seed.py import <ID> <agent _seed dir>   copy m1.. into /verif/seeded/<ID>-mN and verify each in a scratch
                                                worktree: patch applies, demo fails with / passes without, the pinned
                                                test-suite passes exactly as the baseline
  tools_seed.py run <name|all|ID> [--tier quick] [--props C01,C02]
                                                apply the patch to /repo, run the checks, revert (git checkout -- .)
"""
import json
import os
import shutil
import subprocess
import sys
import xml.etree.ElementTree as ET

HERE = os.path.dirname(os.path.abspath(__file__))
SEEDED = os.path.join(HERE, "seeded")
PY = "/venv/bin/python"
BASE = json.load(open("/root/.vp/BASELINE.json"))


def sh(cmd, cwd=None, env=None, timeout=3600):
    r = subprocess.run(cmd, shell=isinstance(cmd, str), cwd=cwd, env=env, stdout=subprocess.PIPE, stderr=subprocess.STDOUT,
                       timeout=timeout)
    return r.returncode, r.stdout.decode("utf-8", "replace")


def run_tests(wt):
    out = "/dev/shm/seedtest_%d.xml" % os.getpid()
    env = dict(os.environ, PYTHONPATH=wt)
    env.pop("LIQUER_VERIF", None)
    sh("%s -m pytest -q -p no:cacheprovider --timeout=900 --continue-on-collection-errors --junitxml=%s" % (PY, out), cwd=wt, env=env)
    passed = set()
    try:
        for tc in ET.parse(out).getroot().iter("testcase"):
            if not any(c.tag in ("failure", "error", "skipped") for c in tc):
                passed.add(tc.get("classname") + "::" + tc.get("name"))
    finally:
        if os.path.exists(out):
            os.remove(out)
    missing = [t for t in BASE["stable_pass"] if t not in passed]
    return missing


def do_import(pid, src):
    wt = "/tmp/lqverify_%s_%d" % (pid, os.getpid())
    sh(["git", "-C", "/repo", "worktree", "add", "-q", "--detach", wt, "HEAD"])
    try:
        for m in sorted(os.listdir(src)):
            d = os.path.join(src, m)
            if not (os.path.isdir(d) and os.path.exists(os.path.join(d, "patch.diff"))):
                continue
            name = "%s-%s" % (pid, m)
            dst = os.path.join(SEEDED, name)
            os.makedirs(dst, exist_ok=True)
            for f in ("patch.diff", "demo.py", "meta.json"):
                if os.path.exists(os.path.join(d, f)):
                    shutil.copy(os.path.join(d, f), os.path.join(dst, f))
            env = dict(os.environ, PYTHONPATH=wt)
            rc0, o0 = sh([PY, os.path.join(dst, "demo.py"), wt], cwd=wt, env=env, timeout=600)
            rca, oa = sh(["git", "apply", os.path.join(dst, "patch.diff")], cwd=wt)
            rc1, o1 = sh([PY, os.path.join(dst, "demo.py"), wt], cwd=wt, env=env, timeout=600)
            missing = run_tests(wt) if rca == 0 else ["patch did not apply"]
            sh("git checkout -- . && git clean -fdq", cwd=wt)
            try:
                meta = json.load(open(os.path.join(dst, "meta.json")))
            except Exception:
                meta = {}
            meta["property"] = pid[:3]
            meta["verified"] = {
                "patch_applies": rca == 0,
                "demo_exit_unchanged_tree": rc0,
                "demo_exit_with_change": rc1,
                "baseline_tests_not_passing_with_change": missing,
                "what_i_ran": "scratch worktree of /repo HEAD: demo.py (exit %d), git apply, demo.py (exit %d), pinned pytest suite compared with BASELINE.json stable_pass" % (rc0, rc1),
            }
            meta["kept"] = bool(rca == 0 and rc0 == 0 and rc1 != 0 and not missing)
            json.dump(meta, open(os.path.join(dst, "meta.json"), "w"), indent=1)
            print(name, "kept" if meta["kept"] else "REJECTED", "demo %d->%d" % (rc0, rc1), "tests missing: %d" % len(missing))
    finally:
        sh(["git", "-C", "/repo", "worktree", "remove", "--force", wt])


FAST = False


def do_reverify(names):
    """re-verify seeds already stored in /verif/seeded against the current /repo HEAD
    (--fast: patch applies and the demonstration flips; the test suite is not re-run)"""
    wt = "/tmp/lqreverify_%d" % os.getpid()
    sh(["git", "-C", "/repo", "worktree", "add", "-q", "--detach", wt, "HEAD"])
    try:
        for name in names:
            dst = os.path.join(SEEDED, name)
            if not os.path.exists(os.path.join(dst, "demo.py")):
                print(name, "skipped (no demonstration program)", flush=True)
                continue
            env = dict(os.environ, PYTHONPATH=wt)
            rc0, o0 = sh([PY, os.path.join(dst, "demo.py"), wt], cwd=wt, env=env, timeout=600)
            rca, oa = sh(["git", "apply", os.path.join(dst, "patch.diff")], cwd=wt)
            rc1, o1 = sh([PY, os.path.join(dst, "demo.py"), wt], cwd=wt, env=env, timeout=600)
            if FAST and rca == 0:
                prev = (json.load(open(os.path.join(dst, "meta.json"))).get("verified") or {}).get("baseline_tests_not_passing_with_change", [])
                missing = [] if prev in ([], ["patch did not apply"]) else prev
            else:
                missing = run_tests(wt) if rca == 0 else ["patch did not apply"]
            sh("git checkout -- . && git clean -fdq", cwd=wt)
            meta = json.load(open(os.path.join(dst, "meta.json")))
            if meta.get("rejected_because"):
                print(name, "REJECTED (kept so: %s)" % meta["rejected_because"][:60], flush=True)
                continue
            meta["verified"] = {
                "patch_applies": rca == 0, "demo_exit_unchanged_tree": rc0, "demo_exit_with_change": rc1,
                "baseline_tests_not_passing_with_change": missing,
                "what_i_ran": "scratch worktree of /repo HEAD %s: demo.py (exit %d), git apply, demo.py (exit %d), pinned pytest suite compared with BASELINE.json stable_pass" % (
                    sh(["git", "-C", "/repo", "rev-parse", "--short", "HEAD"])[1].strip(), rc0, rc1),
            }
            meta["kept"] = bool(rca == 0 and rc0 == 0 and rc1 != 0 and not missing)
            json.dump(meta, open(os.path.join(dst, "meta.json"), "w"), indent=1)
            print(name, "kept" if meta["kept"] else "REJECTED", "demo %d->%d" % (rc0, rc1), "tests missing: %d" % len(missing), flush=True)
    finally:
        sh(["git", "-C", "/repo", "worktree", "remove", "--force", wt])


def do_run(names, tier, props):
    res = {}
    for name in names:
        d = os.path.join(SEEDED, name)
        meta = json.load(open(os.path.join(d, "meta.json")))
        if not meta.get("kept", True):
            continue
        plist = props or ([x for x in meta.get("run_props", "").split(",") if x] or [meta["property"]])
        silent_expected = meta.get("expect") == "silent"
        wt = "/tmp/lqmut_%s_%d" % (name, os.getpid())
        sh(["git", "-C", "/repo", "worktree", "add", "-q", "--detach", wt, "HEAD"])
        try:
            rc, o = sh(["git", "apply", os.path.join(d, "patch.diff")], cwd=wt)
            if rc != 0:
                print(name, "patch does not apply:", o[:200])
                continue
            for p in plist:
                env = dict(os.environ, LQV_REPO=wt, LQV_EVIDENCE_DIR=wt + "/_ev", LQV_REPLAY_DIR=wt + "/_replay")
                rc, o = sh([os.path.join(HERE, "check"), p, "--tier", tier], cwd=HERE, env=env, timeout=7200)
                lines = [l for l in o.splitlines() if l.startswith(("VIOLATION", "  sig=", "INCONCLUSIVE")) or " tier=" in l]
                verdict = {0: "MISSED", 1: "caught", 2: "inconclusive"}.get(rc, "rc%d" % rc)
                if rc == 1 and not any(l.startswith("VIOLATION") for l in lines):
                    verdict = "check crashed"
                if silent_expected:
                    verdict = {0: "silent (ok)", 1: "FALSE ALARM", 2: "inconclusive"}.get(rc, "rc%d" % rc)
                res.setdefault(name, {})[p] = {"verdict": verdict, "lines": [l[:300] for l in lines[:8]]}
                print("%-10s %s %s: %s" % (name, p, tier, verdict), flush=True)
                for l in lines[:4]:
                    print("      " + l[:260], flush=True)
        finally:
            sh(["git", "-C", "/repo", "worktree", "remove", "--force", wt])
        r = {}
        rp = os.path.join(d, "result.json")
        if os.path.exists(rp):
            r = json.load(open(rp))
        r.update({"%s/%s" % (p, tier): v for p, v in res.get(name, {}).items()})
        json.dump(r, open(rp, "w"), indent=1)


def do_report():
    rows = []
    for name in sorted(x for x in os.listdir(SEEDED) if os.path.isdir(os.path.join(SEEDED, x))):
        d = os.path.join(SEEDED, name)
        try:
            meta = json.load(open(os.path.join(d, "meta.json")))
        except Exception:
            continue
        res = {}
        if os.path.exists(os.path.join(d, "result.json")):
            res = json.load(open(os.path.join(d, "result.json")))
        verdicts = "; ".join("%s: %s" % (k, v.get("verdict")) for k, v in sorted(res.items())) or "-"
        rows.append((name, meta.get("property"), "kept" if meta.get("kept") else "rejected", (meta.get("title") or meta.get("what_it_breaks") or "")[:110].replace("|", "/"),
                     (meta.get("needs_to_manifest") or "")[:140].replace("|", "/").replace("\n", " "), verdicts))
    with open(os.path.join(SEEDED, "RESULTS.md"), "w") as f:
        f.write("# Seeded defects and which check catches them\n\n")
        f.write("Generated by `tools_seed.py report` from seeded/*/meta.json and result.json. 'kept' = the patch applies to the current tree, its demonstration fails with it and passes without it, and the pinned test-suite still passes with it (verified in a scratch worktree). 'rejected' = no longer a defect on the current tree (e.g. neutralised by a later fix:) or the patch no longer applies.\n\n")
        f.write("| seed | property | status | change | needs | verdicts (check/tier: result) |\n|---|---|---|---|---|---|\n")
        for r in rows:
            f.write("| %s | %s | %s | %s | %s | %s |\n" % r)
    kept = [r for r in rows if r[2] == "kept" and not r[0].startswith("FA-")]
    caught = [r for r in kept if "caught" in r[5]]
    for r in rows:
        if r[0].startswith("FA-") and "FALSE ALARM" in r[5]:
            print("  FALSE ALARM:", r[0], r[5])
    print("%d seeds, %d kept, %d of the kept caught by at least one check" % (len(rows), len(kept), len(caught)))
    for r in kept:
        if "caught" not in r[5]:
            print("  NOT CAUGHT:", r[0], r[5])


def main():
    if sys.argv[1] == "report":
        return do_report()
    if sys.argv[1] == "reverify":
        allnames = sorted(x for x in os.listdir(SEEDED) if os.path.isdir(os.path.join(SEEDED, x)))
        sel = [x for x in sys.argv[2:] if x != "--fast"]
        global FAST
        FAST = "--fast" in sys.argv
        names = allnames if sel == ["all"] else [x for x in allnames if x in sel or any(x.startswith(y + "-") for y in sel)]
        return do_reverify(names)
    if sys.argv[1] == "import":
        do_import(sys.argv[2], sys.argv[3])
    elif sys.argv[1] == "run":
        sel = sys.argv[2]
        tier = "quick"
        props = None
        a = sys.argv[3:]
        while a:
            if a[0] == "--tier":
                tier = a[1]; a = a[2:]
            elif a[0] == "--props":
                props = a[1].split(","); a = a[2:]
            else:
                a = a[1:]
        allnames = sorted(x for x in os.listdir(SEEDED) if os.path.isdir(os.path.join(SEEDED, x)))
        if sel == "all":
            names = allnames
        else:
            names = [x for x in allnames if x == sel or x.startswith(sel + "-")]
        do_run(names, tier, props)


if __name__ == "__main__":
    main()
